(* Proofs about the JSON recogniser and about templates run over it (C20, json_wellformed).
   Part 1: the recogniser accepts every text a list of pieces with holes stands for, if it accepts the pieces.
   Part 2: whatever a template prints for JSON-safe data is an instance of what the abstract run (Json.arun)
           walked over; hence json_skeleton_ok carries to every rendering, for all statuses. *)
From Coq Require Import NArith ZArith List Bool String Ascii Lia.
From Burrow Require Import Tmpl TmplProofs Json.
Import ListNotations.
Open Scope list_scope.

(* ------------------------------------------------------------------------------------------ *)
(* Part 1: strings                                                                             *)
(* ------------------------------------------------------------------------------------------ *)

Lemma append_nil_r : forall s, (s ++ "")%string = s.
Proof. induction s as [|a r IH]; simpl; [reflexivity|rewrite IH; reflexivity]. Qed.

Lemma json_run_cons : forall c a r,
  json_run c (String a r) = match json_step c a with Some c' => json_run c' r | None => None end.
Proof. reflexivity. Qed.

Lemma json_run_app : forall s1 s2 c,
  json_run c (s1 ++ s2) = match json_run c s1 with Some c1 => json_run c1 s2 | None => None end.
Proof.
  induction s1 as [|a r IH]; simpl; intros s2 c; [reflexivity|].
  destruct (json_step c a); [apply IH | reflexivity].
Qed.

Lemma safe_string_app : forall a b, safe_string (a ++ b) = safe_string a && safe_string b.
Proof. induction a as [|x r IH]; simpl; intros b; [reflexivity|]. rewrite IH, andb_assoc. reflexivity. Qed.

(* the in-string state is a fixpoint of json_step on safe characters *)
Lemma safe_char_step : forall a k stk, safe_char a = true -> json_step (MStr k, stk) a = Some (MStr k, stk).
Proof.
  intros a k stk H. unfold safe_char, safe_code in H. unfold json_step, json_step_code.
  apply andb_prop in H. destruct H as [H H3]. apply andb_prop in H. destruct H as [H1 H2].
  destruct (N_of_ascii a =? 34)%N; [discriminate|].
  destruct (N_of_ascii a =? 92)%N; [discriminate|].
  apply N.leb_le in H1.
  destruct (N.ltb_spec (N_of_ascii a) 32); [lia|reflexivity].
Qed.

Lemma safe_string_run : forall s k stk, safe_string s = true -> json_run (MStr k, stk) s = Some (MStr k, stk).
Proof.
  induction s as [|a r IH]; intros k stk H; [reflexivity|].
  simpl in H. apply andb_prop in H. destruct H as [H1 H2].
  rewrite json_run_cons, safe_char_step by assumption. apply IH; assumption.
Qed.

(* --- numbers -------------------------------------------------------------------------------- *)

Ltac all_ascii a := destruct a as [[|] [|] [|] [|] [|] [|] [|] [|]].

Lemma num_start_step : forall a s stk m,
  value_expected m = true ->
  num_start (N_of_ascii a) = Some s -> json_step (m, stk) a = Some (MNum s, stk).
Proof.
  intros a s stk m Hm H. destruct m; try discriminate; all_ascii a; cbv in H; try discriminate;
    inversion H; subst; reflexivity.
Qed.

Lemma num_start_safe : forall a s, num_start (N_of_ascii a) = Some s -> safe_char a = true.
Proof. intros a s H. all_ascii a; cbv in H; try discriminate; reflexivity. Qed.

Lemma num_step_safe : forall a s s', num_step s (N_of_ascii a) = Some s' -> safe_char a = true.
Proof. intros a s s' H. all_ascii a; try reflexivity; destruct s; cbv in H; discriminate. Qed.

Lemma num_run_json : forall t s s' stk, num_run s t = Some s' -> json_run (MNum s, stk) t = Some (MNum s', stk).
Proof.
  induction t as [|a r IH]; simpl; intros s s' stk H.
  - inversion H; reflexivity.
  - unfold json_step, json_step_code.
    destruct (num_step s (N_of_ascii a)) as [s1|]; [|discriminate]. apply IH; assumption.
Qed.

Lemma num_run_safe : forall t s s', num_run s t = Some s' -> safe_string t = true.
Proof.
  induction t as [|a r IH]; simpl; intros s s' H; [reflexivity|].
  destruct (num_step s (N_of_ascii a)) as [s1|] eqn:E; [|discriminate].
  rewrite (num_step_safe _ _ _ E). simpl. eapply IH; eauto.
Qed.

Lemma number_run : forall t m stk, is_number t = true -> value_expected m = true ->
  exists s, json_run (m, stk) t = Some (MNum s, stk) /\ num_final s = true.
Proof.
  intros t m stk H Hm. destruct t as [|a r]; [discriminate|]. simpl in H.
  destruct (num_start (N_of_ascii a)) as [s0|] eqn:E0; [|discriminate].
  destruct (num_run s0 r) as [s1|] eqn:E1; [|discriminate].
  exists s1. split; [|assumption].
  rewrite json_run_cons, (num_start_step a s0 stk m Hm E0). apply num_run_json; assumption.
Qed.

Lemma number_safe : forall t, is_number t = true -> safe_string t = true.
Proof.
  intros t H. destruct t as [|a r]; [discriminate|]. simpl in H.
  destruct (num_start (N_of_ascii a)) as [s0|] eqn:E0; [|discriminate].
  destruct (num_run s0 r) as [s1|] eqn:E1; [|discriminate].
  simpl. rewrite (num_start_safe _ _ E0). simpl. eapply num_run_safe; eauto.
Qed.

(* A declarative grammar of what Go prints for integers (%d) and finite floats (%v: strconv 'g' with the
   shortest precision): [-] digits [. digits] [e (+|-) digits], the integer part without a leading zero
   unless it is the single digit 0.  Every such text is a JSON number literal. *)
Definition digit_char (a : ascii) : bool := is_digit (N_of_ascii a).
Fixpoint digits (s : string) : bool :=
  match s with EmptyString => true | String a r => digit_char a && digits r end.
Definition nonempty (s : string) : bool := match s with EmptyString => false | _ => true end.

Definition int_part (s : string) : bool :=
  match s with
  | EmptyString => false
  | String a r => if (N_of_ascii a =? 48)%N then (match r with EmptyString => true | _ => false end)
                  else is_digit19 (N_of_ascii a) && digits r
  end.

Inductive go_number : string -> Prop :=
| gn_make : forall (neg : bool) ip (frac : option string) (ex : option (bool * string)),
    int_part ip = true ->
    match frac with Some f => nonempty f && digits f = true | None => True end ->
    match ex with Some (_, e) => nonempty e && digits e = true | None => True end ->
    go_number ((if neg then "-" else "") ++ ip
               ++ match frac with Some f => "." ++ f | None => "" end
               ++ match ex with Some (sg, e) => "e" ++ (if sg then "+" else "-") ++ e | None => "" end)%string.

Lemma num_run_app : forall t1 t2 s, num_run s (t1 ++ t2) = match num_run s t1 with Some s1 => num_run s1 t2 | None => None end.
Proof.
  induction t1 as [|a r IH]; simpl; intros t2 s; [reflexivity|].
  destruct (num_step s (N_of_ascii a)); [apply IH|reflexivity].
Qed.

Lemma num_run_cons : forall s a r,
  num_run s (String a r) = match num_step s (N_of_ascii a) with Some s' => num_run s' r | None => None end.
Proof. reflexivity. Qed.

Lemma digit_cases : forall a, digit_char a = true ->
  num_step NInt (N_of_ascii a) = Some NInt /\ num_step NDot (N_of_ascii a) = Some NFrac /\
  num_step NFrac (N_of_ascii a) = Some NFrac /\ num_step NExpSign (N_of_ascii a) = Some NExpDig /\
  num_step NExpDig (N_of_ascii a) = Some NExpDig.
Proof. intros a H. all_ascii a; cbv in H; try discriminate; cbv; auto. Qed.

Lemma digits_int : forall t, digits t = true -> num_run NInt t = Some NInt.
Proof.
  induction t as [|a r IH]; intros H; [reflexivity|]. cbn [digits] in H. cbn [num_run].
  apply andb_prop in H. destruct H as [H1 H2].
  destruct (digit_cases a H1) as [E _]. rewrite E. auto.
Qed.
Lemma digits_frac : forall t, digits t = true -> num_run NFrac t = Some NFrac.
Proof.
  induction t as [|a r IH]; intros H; [reflexivity|]. cbn [digits] in H. cbn [num_run].
  apply andb_prop in H. destruct H as [H1 H2].
  destruct (digit_cases a H1) as [_ [_ [E _]]]. rewrite E. auto.
Qed.
Lemma digits_exp : forall t, digits t = true -> num_run NExpDig t = Some NExpDig.
Proof.
  induction t as [|a r IH]; intros H; [reflexivity|]. cbn [digits] in H. cbn [num_run].
  apply andb_prop in H. destruct H as [H1 H2].
  destruct (digit_cases a H1) as [_ [_ [_ [_ E]]]]. rewrite E. auto.
Qed.

(* after the integer part the automaton is in NZero or NInt; both continue alike with '.', 'e' or the end *)
Definition after_int (s : numst) : Prop := s = NZero \/ s = NInt.

Lemma int_part_run : forall ip, int_part ip = true ->
  exists a r s, ip = String a r /\ num_start (N_of_ascii a) = Some s /\
                exists s', num_run s r = Some s' /\ after_int s' /\
                           num_step NMinus (N_of_ascii a) = Some s.
Proof.
  intros ip H. destruct ip as [|a r]; [discriminate|]. simpl in H.
  destruct (N_of_ascii a =? 48)%N eqn:E0.
  - destruct r; [|discriminate]. exists a, EmptyString, NZero.
    apply N.eqb_eq in E0. unfold num_start, num_step. rewrite E0. simpl.
    repeat split; auto. exists NZero. repeat split; auto. left; reflexivity.
  - apply andb_prop in H. destruct H as [H1 H2].
    exists a, r, NInt. unfold num_start, num_step. rewrite E0, H1.
    assert (E45 : (N_of_ascii a =? 45)%N = false).
    { unfold is_digit19 in H1. apply andb_prop in H1. destruct H1 as [Ha Hb].
      apply N.leb_le in Ha. apply N.eqb_neq. lia. }
    rewrite E45. repeat split; auto. exists NInt. repeat split; auto using digits_int. right; reflexivity.
Qed.

Lemma tail_run : forall s (frac : option string) (ex : option (bool * string)),
  after_int s ->
  match frac with Some f => nonempty f && digits f = true | None => True end ->
  match ex with Some (_, e) => nonempty e && digits e = true | None => True end ->
  exists s', num_run s (match frac with Some f => "." ++ f | None => "" end
                        ++ match ex with Some (sg, e) => "e" ++ (if sg then "+" else "-") ++ e | None => "" end)%string
             = Some s' /\ num_final s' = true.
Proof.
  intros s frac ex Hs Hf He.
  assert (Hex : forall s0, s0 = NZero \/ s0 = NInt \/ s0 = NFrac ->
            exists s', num_run s0 (match ex with Some (sg, e) => "e" ++ (if sg then "+" else "-") ++ e | None => "" end)%string
                       = Some s' /\ num_final s' = true).
  { intros s0 H0. destruct ex as [[sg e]|].
    - apply andb_prop in He. destruct He as [Hn Hd]. destruct e as [|d e']; [discriminate|].
      simpl in Hd. apply andb_prop in Hd. destruct Hd as [Hd1 Hd2].
      destruct (digit_cases d Hd1) as [_ [_ [_ [E1 _]]]].
      exists NExpDig. split; [|reflexivity].
      assert (Hstep : num_step s0 101 = Some NExp) by (destruct H0 as [->|[->| ->]]; reflexivity).
      destruct sg; cbn [append]; rewrite num_run_cons; change (N_of_ascii "e") with 101%N; rewrite Hstep;
        rewrite num_run_cons;
        [change (num_step NExp (N_of_ascii "+")) with (Some NExpSign)
        |change (num_step NExp (N_of_ascii "-")) with (Some NExpSign)];
        cbv beta iota; rewrite num_run_cons, E1; apply digits_exp; assumption.
    - exists s0. split; [reflexivity|]. destruct H0 as [->|[->| ->]]; reflexivity. }
  destruct frac as [f|].
  - apply andb_prop in Hf. destruct Hf as [Hn Hd]. destruct f as [|d f']; [discriminate|].
    simpl in Hd. apply andb_prop in Hd. destruct Hd as [Hd1 Hd2].
    destruct (digit_cases d Hd1) as [_ [E1 _]].
    destruct (Hex NFrac) as [s' [Hr Hfin]]; [auto|].
    exists s'. split; [|assumption].
    assert (Hstep : num_step s 46 = Some NDot) by (destruct Hs as [->| ->]; reflexivity).
    cbn [append]. rewrite num_run_cons. change (N_of_ascii ".") with 46%N. rewrite Hstep.
    rewrite num_run_cons, E1.
    rewrite num_run_app, (digits_frac _ Hd2). exact Hr.
  - simpl. apply Hex. destruct Hs; auto.
Qed.

Theorem go_number_is_number : forall t, go_number t -> is_number t = true.
Proof.
  intros t H. destruct H as [neg ip frac ex Hip Hf He].
  destruct (int_part_run ip Hip) as [a [r [s [-> [Hst [s1 [Hr [Hai Hm]]]]]]]].
  destruct (tail_run s1 frac ex Hai Hf He) as [s2 [Ht Hfin]].
  destruct neg; cbn [append is_number] in Ht |- *.
  - change (num_start (N_of_ascii "-")) with (Some NMinus). cbv beta iota.
    rewrite num_run_cons, Hm.
    rewrite num_run_app, Hr. cbv beta iota. rewrite Ht. exact Hfin.
  - rewrite Hst. rewrite num_run_app, Hr. cbv beta iota. rewrite Ht. exact Hfin.
Qed.

(* --- a concrete state that may stand for an abstract one ------------------------------------- *)

(* c may stand for a: the same state, or c is a complete number that could still grow where a is "after
   a value" *)
Definition sim (c a : jstate) : Prop :=
  c = a \/ exists s k, num_final s = true /\ c = (MNum s, k) /\ a = (MAfter, k).

Lemma sim_refl : forall c, sim c c.
Proof. left; reflexivity. Qed.

Lemma after_not_num : forall a s stk x, after_value (N_of_ascii a) stk = Some x -> num_step s (N_of_ascii a) = None.
Proof.
  intros a s stk x H. all_ascii a; try (cbv in H; discriminate); destruct s; reflexivity.
Qed.

Lemma sim_step : forall c a ch a', sim c a -> json_step a ch = Some a' -> json_step c ch = Some a'.
Proof.
  intros c a ch a' [->|[s [k [Hf [-> ->]]]]] H; [assumption|].
  unfold json_step, json_step_code in *.
  rewrite (after_not_num _ s _ _ H), Hf. assumption.
Qed.

Lemma sim_run : forall t c a a', sim c a -> json_run a t = Some a' -> exists c', json_run c t = Some c' /\ sim c' a'.
Proof.
  destruct t as [|ch r]; simpl; intros c a a' Hs H.
  - inversion H; subst. eauto.
  - destruct (json_step a ch) as [a1|] eqn:E; [|discriminate].
    rewrite (sim_step _ _ _ _ Hs E). exists a'. split; [assumption|apply sim_refl].
Qed.

Lemma sim_accepting : forall c a, sim c a -> accepting a = true -> accepting c = true.
Proof.
  intros c a [->|[s [k [Hf [-> ->]]]]] H; [assumption|].
  simpl in *. destruct k; [assumption|discriminate].
Qed.

Lemma sim_norm : forall c x, sim c x -> sim c (norm x).
Proof.
  intros c x [->|[s [k [Hf [-> ->]]]]].
  - destruct x as [m k]. destruct m; try apply sim_refl. simpl.
    destruct (num_final s) eqn:E; [|apply sim_refl]. right. eauto.
  - simpl. right. eauto.
Qed.

Lemma sim_join : forall c x y z, join x y = Some z -> (sim c x \/ sim c y) -> sim c z.
Proof.
  unfold join. intros c x y z H Hs.
  destruct (jstate_eq_dec x y) as [->|_].
  - inversion H; subst. destruct Hs; assumption.
  - destruct (jstate_eq_dec (norm x) (norm y)) as [E|_]; [|discriminate].
    inversion H; subst. destruct Hs as [Hs|Hs]; [|rewrite E]; apply sim_norm; assumption.
Qed.

(* --- a complete JSON text where a value is expected ------------------------------------------ *)

Lemma start_value_ext : forall c stk x ext, start_value c stk = Some x -> start_value c (stk ++ ext) = Some (fst x, snd x ++ ext).
Proof.
  unfold start_value. intros c stk x ext H.
  repeat match type of H with (if ?b then _ else _) = _ => destruct b end;
    try discriminate; inversion H; subst; reflexivity.
Qed.

Lemma after_value_ext : forall c stk x ext, after_value c stk = Some x -> after_value c (stk ++ ext) = Some (fst x, snd x ++ ext).
Proof.
  unfold after_value. intros c stk x ext H.
  repeat match type of H with (if ?b then _ else _) = _ => destruct b end;
    try discriminate; try (inversion H; subst; reflexivity);
    destruct stk as [|[] r]; try discriminate; inversion H; subst; reflexivity.
Qed.

(* a step that succeeds on a stack succeeds in the same way on every extension of that stack *)
Lemma step_ext : forall m stk c x ext,
  json_step_code (m, stk) c = Some x -> json_step_code (m, stk ++ ext) c = Some (fst x, snd x ++ ext).
Proof.
  intros m stk c x ext H. unfold json_step_code in *.
  destruct m;
    repeat match type of H with
           | (if ?b then _ else _) = _ => destruct b
           | match num_step ?s ?c with _ => _ end = _ => destruct (num_step s c)
           | match ?r with EmptyString => _ | String _ _ => _ end = _ => destruct r
           | match ?n with O => _ | S _ => _ end = _ => destruct n
           end;
    try discriminate;
    try (inversion H; subst; reflexivity);
    try (apply start_value_ext; assumption);
    try (apply after_value_ext; assumption);
    try (destruct stk as [|[] r]; try discriminate; inversion H; subst; reflexivity).
Qed.

Lemma run_ext : forall t m stk x ext,
  json_run (m, stk) t = Some x -> json_run (m, stk ++ ext) t = Some (fst x, snd x ++ ext).
Proof.
  induction t as [|a r IH]; intros m stk x ext H.
  - simpl in H. inversion H; subst. reflexivity.
  - rewrite json_run_cons in *. unfold json_step in *.
    destruct (json_step_code (m, stk) (N_of_ascii a)) as [[m1 k1]|] eqn:E; [|discriminate].
    rewrite (step_ext _ _ _ _ ext E). cbn [fst snd]. apply IH; assumption.
Qed.

(* after '[' a value starts exactly as where a value is expected *)
Lemma arrfirst_run : forall t stk x, json_run (MValue, stk) t = Some x ->
  json_run (MArrFirst, stk) t = Some x \/ (x = (MValue, stk) /\ json_run (MArrFirst, stk) t = Some (MArrFirst, stk)).
Proof.
  induction t as [|a r IH]; intros stk x H.
  - simpl in H. inversion H; subst. right. auto.
  - rewrite json_run_cons in *. unfold json_step, json_step_code in *.
    destruct (is_ws (N_of_ascii a)) eqn:Ew.
    + apply IH; assumption.
    + destruct (start_value (N_of_ascii a) stk) as [y|] eqn:Es; [|discriminate].
      left. assert (E93 : (N_of_ascii a =? 93)%N = false).
      { destruct (N.eqb_spec (N_of_ascii a) 93) as [E|]; [|reflexivity]. rewrite E in Es. discriminate. }
      rewrite E93. assumption.
Qed.

Lemma value_run : forall t m stk, json_valid t = true -> value_expected m = true ->
  exists c, json_run (m, stk) t = Some c /\ sim c (MAfter, stk).
Proof.
  intros t m stk H Hm. unfold json_valid in H.
  destruct (json_run init t) as [[mf kf]|] eqn:E; [|discriminate].
  simpl in H. destruct kf; [|discriminate].
  pose proof (run_ext t MValue [] _ stk E) as E1. simpl in E1.
  assert (Hsim : sim (mf, stk) (MAfter, stk)).
  { destruct mf; try discriminate; [apply sim_refl|]. right. simpl in H. eauto. }
  destruct m; try discriminate.
  - eauto.
  - destruct (arrfirst_run t stk _ E1) as [E2|[E2 _]]; [eauto|].
    inversion E2; subst. discriminate.
Qed.

(* --- the pieces theorem --------------------------------------------------------------------- *)

Lemma piece_sound : forall p a a' h c,
  piece_step a p = Some a' -> inst [p] h -> sim c a ->
  exists c', json_run c h = Some c' /\ sim c' a'.
Proof.
  intros p a a' h c Hp Hi Hs. inversion Hi as [|s ps r Hr|t ps r Ht Hr|t ps r Ht Hr|t ps r Ht Hr]; subst;
    inversion Hr; subst; rewrite append_nil_r; simpl in Hp.
  - eapply sim_run; eauto.
  - destruct a as [m k]. simpl in Hp. destruct m; try discriminate. inversion Hp; subst.
    destruct Hs as [->|[s [k0 [_ [_ Habs]]]]]; [|discriminate].
    exists (MStr key, k). split; [apply safe_string_run; assumption|apply sim_refl].
  - destruct a as [m k]. simpl in Hp.
    destruct m; simpl in Hp; try discriminate; inversion Hp; subst;
      (destruct Hs as [->|[s [k0 [_ [_ Habs]]]]]; [|discriminate]).
    + destruct (number_run t MValue k Ht eq_refl) as [s [Hrun Hf]].
      exists (MNum s, k). split; [assumption|]. right. eauto.
    + destruct (number_run t MArrFirst k Ht eq_refl) as [s [Hrun Hf]].
      exists (MNum s, k). split; [assumption|]. right. eauto.
    + exists (MStr key, k). split; [apply safe_string_run, number_safe; assumption|apply sim_refl].
  - destruct a as [m k]. simpl in Hp.
    destruct (value_expected m) eqn:Hm; [|discriminate]. inversion Hp; subst.
    assert (c = (m, k)) as ->.
    { destruct Hs as [->|[s [k0 [_ [_ Habs]]]]]; [reflexivity|]. inversion Habs; subst. discriminate. }
    apply value_run; assumption.
Qed.

Lemma inst_lit1 : forall s, inst [Lit s] s.
Proof. intros s. pose proof (inst_lit s [] _ inst_nil) as X. rewrite append_nil_r in X. exact X. Qed.
Lemma inst_str1 : forall h, safe_string h = true -> inst [StrHole] h.
Proof. intros h H. pose proof (inst_str h [] _ H inst_nil) as X. rewrite append_nil_r in X. exact X. Qed.
Lemma inst_num1 : forall h, is_number h = true -> inst [NumHole] h.
Proof. intros h H. pose proof (inst_num h [] _ H inst_nil) as X. rewrite append_nil_r in X. exact X. Qed.
Lemma inst_val1 : forall h, json_valid h = true -> inst [ValHole] h.
Proof. intros h H. pose proof (inst_val h [] _ H inst_nil) as X. rewrite append_nil_r in X. exact X. Qed.

Lemma inst_cons : forall p ps s, inst (p :: ps) s -> exists h r, s = (h ++ r)%string /\ inst [p] h /\ inst ps r.
Proof.
  intros p ps s H. inversion H; subst.
  - exists s0, r. repeat split; auto using inst_lit1.
  - exists h, r. repeat split; auto using inst_str1.
  - exists h, r. repeat split; auto using inst_num1.
  - exists h, r. repeat split; auto using inst_val1.
Qed.

Lemma pieces_sound : forall ps a a' s c,
  pieces_run a ps = Some a' -> inst ps s -> sim c a ->
  exists c', json_run c s = Some c' /\ sim c' a'.
Proof.
  induction ps as [|p r IH]; simpl; intros a a' s c Hp Hi Hs.
  - inversion Hp; subst. inversion Hi; subst. simpl. eauto.
  - destruct (piece_step a p) as [a1|] eqn:E; [|discriminate].
    destruct (inst_cons _ _ _ Hi) as [h [t [-> [Hh Ht]]]].
    destruct (piece_sound _ _ _ _ _ E Hh Hs) as [c1 [Hc1 Hs1]].
    rewrite json_run_app, Hc1. eapply IH; eauto.
Qed.

(* If the recogniser accepts a list of pieces it accepts every text the pieces stand for: string holes filled
   with JSON-safe text, number holes with number literals, value holes with valid JSON. *)
Theorem pieces_wellformed : forall ps s, pieces_valid ps = true -> inst ps s -> json_valid s = true.
Proof.
  unfold pieces_valid, json_valid. intros ps s H Hi.
  destruct (pieces_run init ps) as [a'|] eqn:E; [|discriminate].
  destruct (pieces_sound _ _ _ _ init E Hi (sim_refl _)) as [c' [Hc Hs]].
  rewrite Hc. eapply sim_accepting; eauto.
Qed.

(* ------------------------------------------------------------------------------------------ *)
(* Part 2: what a template prints for JSON-safe data                                           *)
(* ------------------------------------------------------------------------------------------ *)

Open Scope string_scope.

Lemma bind_ok : forall {A B} (r : result A) (f : A -> result B) b,
  bind r f = Ok b -> exists a, r = Ok a /\ f a = Ok b.
Proof. intros A B [a|w] f b H; simpl in H; [eauto|discriminate]. Qed.

Section ValueInd.
  Variable P : value -> Prop.
  Hypothesis Hstr : forall s, P (VStr s).
  Hypothesis Habs : forall j, P (VAbsStr j).
  Hypothesis Hbool : forall b, P (VBool b).
  Hypothesis Hint : forall t z, P (VInt t z).
  Hypothesis Hfloat : forall f, P (VFloat f).
  Hypothesis Hopq : forall tn, P (VOpaque tn).
  Hypothesis Hnil : forall t, P (VNil t).
  Hypothesis Hptr : forall v, P v -> P (VPtr v).
  Hypothesis Hstruct : forall tn fs, Forall (fun p => P (snd p)) fs -> P (VStruct tn fs).
  Hypothesis Hslice : forall et l, Forall P l -> P (VSlice et l).
  Hypothesis Hmap : forall vt kv, Forall (fun p => P (snd p)) kv -> P (VMap vt kv).

  Fixpoint value_ind' (v : value) : P v :=
    match v with
    | VStr s => Hstr s
    | VAbsStr j => Habs j
    | VBool b => Hbool b
    | VInt t z => Hint t z
    | VFloat f => Hfloat f
    | VOpaque tn => Hopq tn
    | VNil t => Hnil t
    | VPtr v => Hptr v (value_ind' v)
    | VStruct tn fs =>
        Hstruct tn fs
          ((fix go (l : list (string * value)) : Forall (fun p => P (snd p)) l :=
              match l with [] => Forall_nil _ | x :: r => Forall_cons x (value_ind' (snd x)) (go r) end) fs)
    | VSlice et l =>
        Hslice et l
          ((fix go (l : list value) : Forall P l :=
              match l with [] => Forall_nil _ | x :: r => Forall_cons x (value_ind' x) (go r) end) l)
    | VMap vt kv =>
        Hmap vt kv
          ((fix go (l : list (string * value)) : Forall (fun p => P (snd p)) l :=
              match l with [] => Forall_nil _ | x :: r => Forall_cons x (value_ind' (snd x)) (go r) end) kv)
    end.
End ValueInd.

Lemma safe_finite : forall v, safe_val v = true -> contains_nonfinite v = false.
Proof.
  apply (value_ind' (fun v => safe_val v = true -> contains_nonfinite v = false)); simpl; auto.
  - intros f H. rewrite H. reflexivity.
  - intros tn fs Hall. induction Hall as [|x r Hx Hr IH]; simpl; intros H; [reflexivity|].
    apply andb_prop in H. destruct H as [H1 H2]. rewrite (Hx H1), (IH H2). reflexivity.
  - intros et l Hall. induction Hall as [|x r Hx Hr IH]; simpl; intros H; [reflexivity|].
    apply andb_prop in H. destruct H as [H1 H2]. rewrite (Hx H1), (IH H2). reflexivity.
  - intros vt kv Hall. induction Hall as [|x r Hx Hr IH]; simpl; intros H; [reflexivity|].
    apply andb_prop in H. destruct H as [H1 H2]. rewrite (Hx H1), (IH H2). reflexivity.
Qed.

Lemma indirect_safe : forall v u, indirect v = Some u -> safe_val v = true -> safe_val u = true.
Proof.
  induction v; intros u H Hs; simpl in H; try discriminate; try (inversion H; subst; exact Hs).
  match goal with IH : forall u, _ -> _ -> _ |- _ => eapply IH; eauto end.
Qed.

Lemma assoc_safe : forall name (fs : list (string * value)) x,
  assoc name fs = Some x -> forallb (fun p => safe_val (snd p)) fs = true -> safe_val x = true.
Proof.
  intros name fs x Ha Hf. exact (assoc_forallb (fun p => safe_val (snd p)) name fs x Hf Ha).
Qed.

Lemma arith_safe : forall sch f vs v,
  (f = FAdd \/ f = FMinus \/ f = FMul \/ f = FDiv) -> apply_fn sch f vs = Ok v -> safe_val v = true.
Proof.
  intros sch f vs v Hf H.
  destruct vs as [|[] [|[] [|]]]; destruct Hf as [->|[->|[->| ->]]]; simpl in H; try discriminate;
    try (inversion H; reflexivity).
  destruct (z0 =? 0)%Z; [discriminate|inversion H; reflexivity].
Qed.

Lemma maxlag_safe : forall sch v0 v, apply_fn sch FMaxlag [v0] = Ok v -> safe_val v0 = true -> safe_val v = true.
Proof.
  intros sch v0 v H Hs. destruct v0; simpl in H; try discriminate.
  - inversion H; reflexivity.
  - destruct v0; try discriminate. destruct (assoc "CurrentLag" fs) as [x|] eqn:Ha; [|discriminate].
    inversion H; subst. simpl in Hs. eapply assoc_safe; eauto.
Qed.

Ltac spec_norm Hev :=
  match type of Hev with
  | context [fn_specs ?f] => let r := eval cbv in (fn_specs f) in change (fn_specs f) with r in Hev
  end; cbv beta iota in Hev.

Section Safe.
  Variable sch : schema.
  Hypothesis Hnames : names_safe sch = true.

  Lemma status_name_safe : forall z, safe_string (status_name sch z) = true.
  Proof.
    intros z. unfold names_safe in Hnames. simpl in Hnames. apply andb_prop in Hnames. destruct Hnames as [Hu Hn].
    unfold status_name. destruct ((0 <=? z)%Z && (z <? Z.of_nat (Datatypes.length (sch_status_names sch)))%Z); [|exact Hu].
    rewrite forallb_forall in Hn.
    destruct (nth_in_or_default (Z.to_nat z) (sch_status_names sch) (sch_status_unknown sch)) as [Hin | Hdef]; [auto | rewrite Hdef; exact Hu].
  Qed.

  Lemma method_result_safe : forall recv name m x, method_result sch recv name m = Ok x -> safe_val x = true.
  Proof.
    unfold method_result. intros recv name m x H.
    destruct (m_results m) as [|[] [|]]; try discriminate.
    destruct recv; try (inversion H; reflexivity).
    destruct t; try (inversion H; reflexivity).
    destruct (String.eqb n (sch_status_ty sch) && String.eqb name "String"); inversion H; subst; simpl; auto.
    apply status_name_safe.
  Qed.

  Lemma field_step_safe : forall evargs noargs recv name x,
    field_step sch evargs noargs recv name = Ok x -> safe_val recv = true -> safe_val x = true.
  Proof.
    unfold field_step. intros evargs noargs recv name x H Hs.
    destruct (indirect recv) as [v|] eqn:Hi; [|discriminate].
    pose proof (indirect_safe _ _ Hi Hs) as Hv.
    destruct (match vnamed v with Some tn => method_of sch tn name | None => None end) as [m|].
    - destruct (m_ptr m); [discriminate|].
      apply bind_ok in H. destruct H as [vs [_ H]]. eapply method_result_safe; eauto.
    - destruct v; try discriminate. destruct noargs; [|discriminate].
      destruct (assoc name fs) as [y|] eqn:Ha; [|discriminate]. inversion H; subst.
      eapply assoc_safe; eauto.
  Qed.

  Lemma chain0_safe : forall chain v x, eval_chain0 sch v chain = Ok x -> safe_val v = true -> safe_val x = true.
  Proof.
    induction chain as [|f r IH]; simpl; intros v x H Hs.
    - inversion H; subst; assumption.
    - apply bind_ok in H. destruct H as [y [Hy H]]. eapply IH; eauto. eapply field_step_safe; eauto.
  Qed.

  Lemma chain_safe : forall dot chain v args final x,
    eval_chain sch dot v chain args final = Ok x -> safe_val v = true -> safe_val x = true.
  Proof.
    induction chain as [|f r IH]; intros v args final x H Hs.
    - simpl in H. destruct args; [|discriminate]. destruct final; [discriminate|]. inversion H; subst; assumption.
    - destruct r as [|g r'].
      + simpl in H. eapply field_step_safe; eauto.
      + change (eval_chain sch dot v (f :: g :: r') args final)
          with (bind (field_step sch no_args true v f) (fun y => eval_chain sch dot y (g :: r') args final)) in H.
        apply bind_ok in H. destruct H as [y [Hy H]]. eapply IH; eauto. eapply field_step_safe; eauto.
  Qed.

  Lemma coerce_safe : forall ps v x, coerce ps v = Ok x -> safe_val v = true -> safe_val x = true.
  Proof.
    unfold coerce. intros ps v x H Hs. destruct ps as [|t]; [inversion H; subst; assumption|].
    destruct (ty_eqb (type_of v) t); [inversion H; subst; assumption|].
    destruct v; try discriminate.
    - destruct (ty_eqb t0 t); discriminate.
    - destruct (ty_eqb (type_of v) t); [|discriminate]. inversion H; subst. exact Hs.
  Qed.

  Lemma eval_arg_safe : forall dot ps a x,
    eval_arg sch dot ps a = Ok x -> arg_safe a = true -> safe_val dot = true -> safe_val x = true.
  Proof.
    intros dot ps a x H Ha Hd. destruct a; simpl in H.
    - eapply coerce_safe; eauto.
    - apply bind_ok in H. destruct H as [y [Hy H]]. eapply coerce_safe; eauto. eapply chain0_safe; eauto.
    - destruct ps as [|[]]; try discriminate; inversion H; subst; exact Ha.
    - destruct ps as [|[]]; try discriminate; try (inversion H; subst; reflexivity).
      destruct (is_named_int sch n); [|discriminate]. inversion H; subst; reflexivity.
    - discriminate.
  Qed.

  Lemma eval_args_safe : forall dot args specs var final vs,
    eval_args sch dot specs var args final = Ok vs ->
    forallb arg_safe args = true -> safe_val dot = true ->
    match final with Some fv => safe_val fv = true | None => True end ->
    forallb safe_val vs = true.
  Proof.
    induction args as [|a r IH]; intros specs var final vs H Ha Hd Hf.
    - simpl in H. destruct final as [fv|].
      + destruct specs as [|p [|]].
        * destruct var as [p|]; [|discriminate].
          apply bind_ok in H. destruct H as [y [Hy H]]. inversion H; subst. simpl.
          rewrite (coerce_safe _ _ _ Hy Hf). reflexivity.
        * apply bind_ok in H. destruct H as [y [Hy H]]. inversion H; subst. simpl.
          rewrite (coerce_safe _ _ _ Hy Hf). reflexivity.
        * discriminate.
      + destruct specs; [|discriminate]. inversion H; reflexivity.
    - simpl in Ha. apply andb_prop in Ha. destruct Ha as [Ha1 Ha2].
      simpl in H. destruct specs as [|p ps].
      + destruct var as [p|]; [|discriminate].
        apply bind_ok in H. destruct H as [y [Hy H]].
        apply bind_ok in H. destruct H as [ys [Hys H]]. inversion H; subst. simpl.
        rewrite (eval_arg_safe _ _ _ _ Hy Ha1 Hd). simpl. eapply IH; eauto.
      + apply bind_ok in H. destruct H as [y [Hy H]].
        apply bind_ok in H. destruct H as [ys [Hys H]]. inversion H; subst. simpl.
        rewrite (eval_arg_safe _ _ _ _ Hy Ha1 Hd). simpl. eapply IH; eauto.
  Qed.

  Lemma zero_safe : forall t z, zero_of sch t = Some z -> safe_val z = true.
  Proof.
    intros t z H. destruct t; simpl in H; try discriminate; try (inversion H; subst; reflexivity).
    destruct (is_named_int sch n); [|discriminate]. inversion H; reflexivity.
  Qed.

  Lemma index_one_safe : forall item key x, index_one sch item key = Ok x -> safe_val item = true -> safe_val x = true.
  Proof.
    unfold index_one. intros item key x H Hs.
    destruct (indirect item) as [v|] eqn:Hi; [|discriminate].
    pose proof (indirect_safe _ _ Hi Hs) as Hv.
    destruct v; try discriminate.
    - destruct key; try discriminate.
      destruct ((0 <=? z)%Z && (z <? Z.of_nat (Datatypes.length l))%Z); [|discriminate].
      destruct (nth_error l (Z.to_nat z)) as [y|] eqn:Hn; [|discriminate]. inversion H; subst.
      simpl in Hv. rewrite forallb_forall in Hv. apply Hv. eapply nth_error_In; eauto.
    - destruct key; try discriminate.
      destruct (assoc s kv) as [y|] eqn:Ha.
      + inversion H; subst. eapply assoc_safe; eauto.
      + destruct (zero_of sch vt) as [z|] eqn:Hz; [|discriminate]. inversion H; subst. eapply zero_safe; eauto.
  Qed.

  Lemma index_all_safe : forall keys item x, index_all sch item keys = Ok x -> safe_val item = true -> safe_val x = true.
  Proof.
    induction keys as [|k r IH]; simpl; intros item x H Hs.
    - inversion H; subst; assumption.
    - apply bind_ok in H. destruct H as [y [Hy H]]. eapply IH; eauto. eapply index_one_safe; eauto.
  Qed.

  (* the invariant: what a pipeline of this static type evaluates to *)
  Definition inv (st : sty) (v : value) : Prop :=
    if s_json st then v = VAbsStr true else safe_val v = true.

  Definition fed_inv (fed : option sty) (final : option value) : Prop :=
    match fed, final with
    | None, None => True
    | Some fs, Some fv => inv fs fv
    | _, _ => False
    end.

  Lemma inv_finite : forall st v, inv st v -> contains_nonfinite v = false.
  Proof.
    unfold inv. intros st v H. destruct (s_json st); [subst; reflexivity|apply safe_finite; assumption].
  Qed.

  Lemma ty_field_json : forall facts st name args st', ty_field sch facts st name args = Some st' -> s_json st' = false.
  Proof.
    unfold ty_field. intros facts st name args st' H.
    match type of H with match ?b with _ => _ end = _ => destruct b as [tn|] end; [|discriminate].
    destruct (method_of sch tn name) as [m|].
    - match type of H with (if ?b then _ else _) = _ => destruct b end; [|discriminate]. inversion H; reflexivity.
    - destruct (tentry_of sch tn) as [[[fds| |] ms]|]; try discriminate.
      destruct args; [|discriminate]. destruct (assoc name fds); [|discriminate]. inversion H; reflexivity.
  Qed.

  Lemma ty_chain0_json : forall facts chain st st', ty_chain0 sch facts st chain = Some st' -> s_json st = false -> s_json st' = false.
  Proof.
    induction chain as [|f r IH]; simpl; intros st st' H Hj.
    - inversion H; subst; assumption.
    - destruct (ty_field sch facts st f []) as [st1|] eqn:E; [|discriminate].
      eapply IH; eauto. eapply ty_field_json; eauto.
  Qed.

  Lemma ty_chain_json : forall facts chain st args st', ty_chain sch facts st chain args = Some st' -> s_json st = false -> s_json st' = false.
  Proof.
    induction chain as [|f r IH]; intros st args st' H Hj.
    - simpl in H. destruct args; [|discriminate]. inversion H; subst; assumption.
    - destruct r as [|g r'].
      + simpl in H. eapply ty_field_json; eauto.
      + change (ty_chain sch facts st (f :: g :: r') args)
          with (match ty_field sch facts st f [] with Some st1 => ty_chain sch facts st1 (g :: r') args | None => None end) in H.
        destruct (ty_field sch facts st f []) as [st1|] eqn:E; [|discriminate].
        eapply IH; eauto. eapply ty_field_json; eauto.
  Qed.

  Lemma call_inv : forall facts dst dot name args fed final st v,
    ty_call sch facts dst name args fed = Some st ->
    call_fn sch dot name args final = Ok v ->
    forallb arg_safe args = true -> safe_val dot = true -> fed_inv fed final ->
    inv st v.
  Proof.
    intros facts dst dot name args fed final st v Hty Hev Ha Hd Hfed.
    unfold ty_call in Hty. unfold call_fn in Hev.
    destruct (resolve_fn sch name) as [f|] eqn:Hr; [|discriminate].
    assert (Hfin : match final with Some fv => contains_nonfinite fv = false | None => True end).
    { destruct fed, final; simpl in Hfed; try contradiction; auto. eapply inv_finite; eauto. }
    assert (Hvs : forall specs var vs, eval_args sch dot specs var args None = Ok vs -> forallb safe_val vs = true).
    { intros specs var vs Hvs. eapply eval_args_safe; eauto. exact I. }
    destruct f; try discriminate.
    - (* len *)
      destruct args as [|a [|]]; try discriminate. destruct fed; [discriminate|]. destruct final; [contradiction|].
      destruct (ty_operand sch facts dst a) as [[ta pa ja]|]; [|discriminate].
      assert (st = mkSty t_int None false) as -> by (destruct ta; try discriminate; inversion Hty; reflexivity).
      spec_norm Hev. apply bind_ok in Hev. destruct Hev as [vs [Hvs' Hev]].
      destruct vs as [|v0 [|]]; try discriminate. simpl in Hev.
      destruct (indirect v0) as [[]|]; try discriminate; inversion Hev; reflexivity.
    - (* index *)
      destruct args as [|m [|k [|]]]; try discriminate; destruct k; try discriminate.
      destruct fed; [discriminate|]. destruct final; [contradiction|].
      destruct (ty_operand sch facts dst m) as [[tm pm jm]|]; [|discriminate].
      destruct tm; try discriminate. destruct (scalar_zero sch tm); [|discriminate]. inversion Hty; subst st.
      spec_norm Hev. apply bind_ok in Hev. destruct Hev as [vs [Hvs' Hev]].
      pose proof (Hvs _ _ _ Hvs') as Hsafe.
      destruct vs as [|item keys]; [discriminate|]. simpl in Hev, Hsafe.
      apply andb_prop in Hsafe. destruct Hsafe as [Hs1 _].
      unfold inv. simpl. eapply index_all_safe; eauto.
    - (* eq *)
      destruct args as [|a [|b [|]]]; try discriminate. destruct fed; [discriminate|]. destruct final; [contradiction|].
      destruct (ty_operand sch facts dst a) as [sa|]; [|discriminate].
      destruct (ty_operand sch facts dst b) as [sb|]; [|discriminate].
      destruct (is_int_ty sch (s_ty sa) && is_int_ty sch (s_ty sb)); [|discriminate]. inversion Hty; subst st.
      spec_norm Hev. apply bind_ok in Hev. destruct Hev as [vs [Hvs' Hev]].
      destruct vs as [|v1 [|v2 r]]; try discriminate. simpl in Hev.
      apply bind_ok in Hev. destruct Hev as [bb [_ Hev]]. inversion Hev; reflexivity.
    - destruct args as [|a [|b [|]]]; try discriminate. destruct fed; [discriminate|]. destruct final; [contradiction|].
      destruct (ty_operand sch facts dst a) as [sa|]; [|discriminate].
      destruct (ty_operand sch facts dst b) as [sb|]; [|discriminate].
      destruct (is_int_ty sch (s_ty sa) && is_int_ty sch (s_ty sb)); [|discriminate]. inversion Hty; subst st.
      spec_norm Hev. apply bind_ok in Hev. destruct Hev as [vs [Hvs' Hev]].
      destruct vs as [|v1 [|v2 [|]]]; try discriminate. simpl in Hev.
      apply bind_ok in Hev. destruct Hev as [bb [_ Hev]]. inversion Hev; reflexivity.
    - destruct args as [|a [|b [|]]]; try discriminate. destruct fed; [discriminate|]. destruct final; [contradiction|].
      destruct (ty_operand sch facts dst a) as [sa|]; [|discriminate].
      destruct (ty_operand sch facts dst b) as [sb|]; [|discriminate].
      destruct (is_int_ty sch (s_ty sa) && is_int_ty sch (s_ty sb)); [|discriminate]. inversion Hty; subst st.
      spec_norm Hev. apply bind_ok in Hev. destruct Hev as [vs [Hvs' Hev]].
      destruct vs as [|v1 [|v2 [|]]]; try discriminate. simpl in Hev.
      apply bind_ok in Hev. destruct Hev as [bb [_ Hev]]. inversion Hev; reflexivity.
    - destruct args as [|a [|b [|]]]; try discriminate. destruct fed; [discriminate|]. destruct final; [contradiction|].
      destruct (ty_operand sch facts dst a) as [sa|]; [|discriminate].
      destruct (ty_operand sch facts dst b) as [sb|]; [|discriminate].
      destruct (is_int_ty sch (s_ty sa) && is_int_ty sch (s_ty sb)); [|discriminate]. inversion Hty; subst st.
      spec_norm Hev. apply bind_ok in Hev. destruct Hev as [vs [Hvs' Hev]].
      destruct vs as [|v1 [|v2 [|]]]; try discriminate. simpl in Hev.
      apply bind_ok in Hev. destruct Hev as [bb [_ Hev]]. inversion Hev; reflexivity.
    - destruct args as [|a [|b [|]]]; try discriminate. destruct fed; [discriminate|]. destruct final; [contradiction|].
      destruct (ty_operand sch facts dst a) as [sa|]; [|discriminate].
      destruct (ty_operand sch facts dst b) as [sb|]; [|discriminate].
      destruct (is_int_ty sch (s_ty sa) && is_int_ty sch (s_ty sb)); [|discriminate]. inversion Hty; subst st.
      spec_norm Hev. apply bind_ok in Hev. destruct Hev as [vs [Hvs' Hev]].
      destruct vs as [|v1 [|v2 [|]]]; try discriminate. simpl in Hev.
      apply bind_ok in Hev. destruct Hev as [bb [_ Hev]]. inversion Hev; reflexivity.
    - destruct args as [|a [|b [|]]]; try discriminate. destruct fed; [discriminate|]. destruct final; [contradiction|].
      destruct (ty_operand sch facts dst a) as [sa|]; [|discriminate].
      destruct (ty_operand sch facts dst b) as [sb|]; [|discriminate].
      destruct (is_int_ty sch (s_ty sa) && is_int_ty sch (s_ty sb)); [|discriminate]. inversion Hty; subst st.
      spec_norm Hev. apply bind_ok in Hev. destruct Hev as [vs [Hvs' Hev]].
      destruct vs as [|v1 [|v2 [|]]]; try discriminate. simpl in Hev.
      apply bind_ok in Hev. destruct Hev as [bb [_ Hev]]. inversion Hev; reflexivity.
    - (* jsonencoder *)
      destruct args as [|a [|]]; try discriminate.
      + destruct fed as [fs|]; [|discriminate]. destruct final as [fv|]; [|contradiction].
        inversion Hty; subst st. simpl in Hev. rewrite Hfin in Hev. inversion Hev; reflexivity.
      + destruct fed; [discriminate|]. destruct final; [contradiction|].
        destruct (ty_operand sch facts dst a) as [sa|]; [|discriminate]. inversion Hty; subst st.
        spec_norm Hev. apply bind_ok in Hev. destruct Hev as [vs [Hvs' Hev]].
        pose proof (Hvs _ _ _ Hvs') as Hsafe.
        destruct vs as [|v0 [|]]; try discriminate. simpl in Hev, Hsafe.
        apply andb_prop in Hsafe. destruct Hsafe as [Hs1 _].
        rewrite (safe_finite _ Hs1) in Hev. inversion Hev; reflexivity.
    - (* add *)
      destruct args as [|a [|b [|]]]; try discriminate. destruct fed; [discriminate|]. destruct final; [contradiction|].
      destruct (is_t_int (ty_operand sch facts dst a) && is_t_int (ty_operand sch facts dst b)); [|discriminate].
      inversion Hty; subst st. spec_norm Hev. apply bind_ok in Hev. destruct Hev as [vs [_ Hev]].
      unfold inv. simpl. apply (arith_safe sch FAdd vs v); [tauto|exact Hev].
    - (* minus *)
      destruct args as [|a [|b [|]]]; try discriminate. destruct fed; [discriminate|]. destruct final; [contradiction|].
      destruct (is_t_int (ty_operand sch facts dst a) && is_t_int (ty_operand sch facts dst b)); [|discriminate].
      inversion Hty; subst st. spec_norm Hev. apply bind_ok in Hev. destruct Hev as [vs [_ Hev]].
      unfold inv. simpl. apply (arith_safe sch FMinus vs v); [tauto|exact Hev].
    - (* multiply *)
      destruct args as [|a [|b [|]]]; try discriminate. destruct fed; [discriminate|]. destruct final; [contradiction|].
      destruct (is_t_int (ty_operand sch facts dst a) && is_t_int (ty_operand sch facts dst b)); [|discriminate].
      inversion Hty; subst st. spec_norm Hev. apply bind_ok in Hev. destruct Hev as [vs [_ Hev]].
      unfold inv. simpl. apply (arith_safe sch FMul vs v); [tauto|exact Hev].
    - (* divide *)
      destruct args as [|a [|b [|]]]; try discriminate; try (destruct b; discriminate).
      destruct fed; [destruct b; discriminate|]. destruct final; [contradiction|]. destruct b; try discriminate.
      destruct (is_t_int (ty_operand sch facts dst a) && negb (z =? 0)%Z); [|discriminate].
      inversion Hty; subst st. spec_norm Hev. apply bind_ok in Hev. destruct Hev as [vs [_ Hev]].
      unfold inv. simpl. apply (arith_safe sch FDiv vs v); [tauto|exact Hev].
    - (* maxlag *)
      assert (Hst : s_json st = false).
      { destruct args as [|a [|]]; try discriminate; destruct fed; try discriminate;
          unfold ty_maxlag in Hty;
          repeat match type of Hty with
                 | match ?x with _ => _ end = _ => destruct x; try discriminate
                 | (if ?x then _ else _) = _ => destruct x; try discriminate
                 end; inversion Hty; reflexivity. }
      unfold inv. rewrite Hst.
      spec_norm Hev. apply bind_ok in Hev. destruct Hev as [vs [Hvs' Hev]].
      destruct args as [|a [|]]; try discriminate.
      + destruct fed as [fs|]; [|discriminate]. destruct final as [fv|]; [|contradiction].
        cbn [eval_args] in Hvs'. apply bind_ok in Hvs'. destruct Hvs' as [v0 [Hc Hvs']]. inversion Hvs'; subst vs.
        eapply maxlag_safe; eauto. simpl in Hfed. unfold inv in Hfed.
        destruct (s_json fs); [subst fv; simpl in Hc; discriminate|]. eapply coerce_safe; eauto.
      + destruct fed; [discriminate|]. destruct final; [contradiction|].
        pose proof (Hvs _ _ _ Hvs') as Hsafe.
        cbn [eval_args] in Hvs'. apply bind_ok in Hvs'. destruct Hvs' as [v0 [_ Hvs']]. cbn [bind] in Hvs'.
        inversion Hvs'; subst vs.
        simpl in Hsafe. apply andb_prop in Hsafe. destruct Hsafe as [Hs1 _]. eapply maxlag_safe; eauto.
    - (* formattimestamp *)
      assert (Hst : s_json st = false).
      { destruct args as [|a [|b [|]]]; try discriminate; try (destruct b; discriminate).
        destruct fed; [destruct b; discriminate|]. destruct b; try discriminate.
        destruct a; simpl in Hty;
          repeat match type of Hty with
                 | match ?x with _ => _ end = _ => destruct x; try discriminate
                 | (if ?x then _ else _) = _ => destruct x; try discriminate
                 end; inversion Hty; reflexivity. }
      unfold inv. rewrite Hst.
      spec_norm Hev. apply bind_ok in Hev. destruct Hev as [vs [_ Hev]].
      destruct vs as [|v1 [|v2 [|]]]; simpl in Hev; try discriminate. inversion Hev; reflexivity.
  Qed.
End Safe.

Section Render.
  Variable sch : schema.
  Variable facts : list path.
  Hypothesis Hnames : names_safe sch = true.

  Lemma cmd_inv : forall dst dot c fed final st v,
    ty_cmd sch facts dst c fed = Some st -> eval_cmd sch dot c final = Ok v ->
    cmd_safe c = true -> s_json dst = false -> safe_val dot = true -> fed_inv fed final ->
    inv st v.
  Proof.
    intros dst dot c fed final st v Hty Hev Hc Hj Hd Hfed.
    destruct c as [first rest|fn args]; simpl in Hty, Hev, Hc.
    - apply andb_prop in Hc. destruct Hc as [Hc1 Hc2].
      destruct first; try discriminate.
      + destruct rest; [|discriminate]. destruct fed; [discriminate|]. destruct final; [contradiction|].
        inversion Hty; inversion Hev; subst. unfold inv. rewrite Hj. assumption.
      + destruct fed; [discriminate|]. destruct final; [contradiction|].
        unfold inv. rewrite (ty_chain_json _ _ _ _ _ _ Hty Hj). eapply chain_safe; eauto.
      + destruct rest; [|discriminate]. destruct fed; [discriminate|]. destruct final; [contradiction|].
        inversion Hty; inversion Hev; subst. exact Hc1.
      + destruct rest; [|discriminate]. destruct fed; [discriminate|]. destruct final; [contradiction|].
        inversion Hty; inversion Hev; subst. reflexivity.
    - eapply call_inv; eauto.
  Qed.

  Lemma cmds_inv : forall dst dot p fed final st v,
    ty_cmds sch facts dst p fed = Some st -> eval_cmds sch dot p final = Ok v ->
    forallb cmd_safe p = true -> s_json dst = false -> safe_val dot = true -> fed_inv fed final ->
    inv st v.
  Proof.
    induction p as [|c r IH]; simpl; intros fed final st v Hty Hev Hp Hj Hd Hfed.
    - subst fed. destruct final; [|contradiction]. inversion Hev; subst. exact Hfed.
    - apply andb_prop in Hp. destruct Hp as [Hp1 Hp2].
      destruct (ty_cmd sch facts dst c fed) as [st1|] eqn:Hc; [|discriminate].
      apply bind_ok in Hev. destruct Hev as [v1 [Hv1 Hev]].
      eapply IH; eauto. simpl. eapply cmd_inv; eauto.
  Qed.

  Lemma pipe_inv : forall dst dot p st v,
    ty_pipe sch facts dst p = Some st -> eval_pipe sch dot p = Ok v ->
    pipe_safe p = true -> s_json dst = false -> safe_val dot = true -> inv st v.
  Proof. intros. eapply cmds_inv; eauto. exact I. Qed.

  (* what is printed for a value of a printable static type is an instance of the hole of that type *)
  Lemma print_inst : forall st v h,
    ok_val sch facts st v -> inv st v -> hole_of sch st = Some h ->
    forall s, inst (print_value sch true v) s -> inst [h] s.
  Proof.
    intros st v h [Hw [Ht _]] Hi Hh s Hs. unfold hole_of in Hh. unfold inv in Hi.
    destruct (s_ty st) eqn:Est; try discriminate.
    - (* string *)
      destruct (s_json st).
      + subst v. inversion Hh; subst. exact Hs.
      + inversion Hh; subst h. destruct v; simpl in Ht; try discriminate.
        * simpl in Hs, Hi. destruct (inst_cons _ _ _ Hs) as [x [r [-> [Hx Hr]]]].
          inversion Hr; subst. inversion Hx; subst. inversion H2; subst.
          rewrite !append_nil_r. apply inst_str1; assumption.
        * simpl in Hi. destruct json; [discriminate|]. exact Hs.
        * destruct t; discriminate.
    - (* float *)
      destruct (s_json st); [subst v; discriminate|].
      inversion Hh; subst h. destruct v; simpl in Ht; try discriminate; [destruct t; discriminate|].
      simpl in Hi, Hs. rewrite Hi in Hs. exact Hs.
    - (* predeclared integer *)
      destruct (s_json st); [subst v; discriminate|].
      inversion Hh; subst h. destruct v; simpl in Ht; try discriminate. subst t. exact Hs.
    - (* named integer *)
      destruct (s_json st); [subst v; discriminate|].
      destruct (is_named_int sch n) eqn:Hn.
      2:{ destruct (tentry_of sch n) as [[[] ?]|] eqn:He; try discriminate. inversion Hh; subst h.
          destruct v; simpl in Ht; try discriminate.
          - subst t. simpl in Hw. rewrite Hn in Hw. discriminate.
          - exact Hs.
          - inversion Ht; subst tn. simpl in Hw. rewrite He in Hw. discriminate. }
      destruct v; simpl in Ht; try discriminate.
      + subst t. simpl in Hs.
        destruct (has_stringer sch n) eqn:Hst; inversion Hh; subst h.
        * destruct (String.eqb n (sch_status_ty sch)); simpl in Hs; [|exact Hs].
          destruct (inst_cons _ _ _ Hs) as [x [r [-> [Hx Hr]]]].
          inversion Hr; subst. inversion Hx; subst. inversion H2; subst.
          rewrite !append_nil_r. apply inst_str1. apply status_name_safe; assumption.
        * rewrite andb_false_r in Hs. exact Hs.
      + inversion Ht; subst tn. simpl in Hw. unfold is_named_int in Hn.
        destruct (tentry_of sch n) as [[[] ?]|]; discriminate.
      + inversion Ht; subst tn. simpl in Hw. unfold is_named_int in Hn.
        destruct (tentry_of sch n) as [[[] ?]|]; discriminate.
  Qed.

  Lemma inst_cons_intro : forall p h ps r, inst [p] h -> inst ps r -> inst (p :: ps) (h ++ r).
  Proof.
    intros p h ps r Hh Hr.
    inversion Hh as [|s0 ps0 r0 H0|h0 ps0 r0 Hs0 H0|h0 ps0 r0 Hs0 H0|h0 ps0 r0 Hs0 H0]; subst;
      inversion H0; subst; rewrite append_nil_r; constructor; assumption.
  Qed.

  Lemma inst_app : forall o1 o2 s, inst (o1 ++ o2) s ->
    exists s1 s2, s = (s1 ++ s2)%string /\ inst o1 s1 /\ inst o2 s2.
  Proof.
    induction o1 as [|p r IH]; simpl; intros o2 s H.
    - exists "", s. repeat split; [constructor|assumption].
    - destruct (inst_cons _ _ _ H) as [h [t [-> [Hh Ht]]]].
      destruct (IH _ _ Ht) as [s1 [s2 [-> [H1 H2]]]].
      exists (h ++ s1)%string, s2. repeat split; auto.
      + clear. induction h; simpl; [reflexivity|rewrite IHh; reflexivity].
      + apply inst_cons_intro; assumption.
  Qed.

End Render.

Section RenderNodes.
  Variable sch : schema.
  Hypothesis Hnames : names_safe sch = true.

  Definition node_json (n : node) : Prop :=
    forall facts dst dot a a' out s c,
      arun_node sch facts dst n a = Some a' ->
      ok_val sch facts dst dot -> s_json dst = false -> safe_val dot = true ->
      exec_node sch n dot = Ok out -> inst out s -> sim c a ->
      exists c', json_run c s = Some c' /\ sim c' a'.

  Lemma seq_json : forall ns, Forall node_json ns ->
    forall facts dst dot a a' out s c,
      seq_arun (arun_node sch facts dst) ns a = Some a' ->
      ok_val sch facts dst dot -> s_json dst = false -> safe_val dot = true ->
      seq_exec (exec_node sch) ns dot = Ok out -> inst out s -> sim c a ->
      exists c', json_run c s = Some c' /\ sim c' a'.
  Proof.
    induction 1 as [|n r Hn Hr IH]; simpl; intros facts dst dot a a' out s c Ha Hok Hj Hd He Hi Hs.
    - inversion Ha; inversion He; subst. inversion Hi; subst. simpl. eauto.
    - destruct (arun_node sch facts dst n a) as [a1|] eqn:E1; [|discriminate].
      apply bind_ok in He. destruct He as [o1 [Ho1 He]].
      apply bind_ok in He. destruct He as [o2 [Ho2 He]]. inversion He; subst out.
      destruct (inst_app _ _ _ Hi) as [s1 [s2 [-> [Hi1 Hi2]]]].
      destruct (Hn _ _ _ _ _ _ _ _ E1 Hok Hj Hd Ho1 Hi1 Hs) as [c1 [Hc1 Hs1]].
      rewrite json_run_app, Hc1. eapply IH; eauto.
  Qed.

  Lemma loop_json : forall facts body dste l a out s c,
    Forall node_json body ->
    seq_arun (arun_node sch facts dste) body a = Some a ->
    (forall x, In x l -> ok_val sch facts dste x /\ safe_val x = true) -> s_json dste = false ->
    loop_exec (seq_exec (exec_node sch) body) l = Ok out -> inst out s -> sim c a ->
    exists c', json_run c s = Some c' /\ sim c' a.
  Proof.
    intros facts body dste l a out s c Hbody Hinv. revert out s c.
    induction l as [|x r IH]; intros out s c Hall Hj He Hi Hs.
    - simpl in He. inversion He; subst. inversion Hi; subst. simpl. eauto.
    - rewrite loop_exec_cons in He.
      apply bind_ok in He. destruct He as [o1 [Ho1 He]].
      apply bind_ok in He. destruct He as [o2 [Ho2 He]]. inversion He; subst out.
      destruct (inst_app _ _ _ Hi) as [s1 [s2 [-> [Hi1 Hi2]]]].
      destruct (Hall x (or_introl eq_refl)) as [Hokx Hsx].
      destruct (seq_json body Hbody _ _ _ _ _ _ _ _ Hinv Hokx Hj Hsx Ho1 Hi1 Hs) as [c1 [Hc1 Hs1]].
      rewrite json_run_app, Hc1. eapply IH; eauto. intros y Hy. apply Hall. right; assumption.
  Qed.

  Lemma node_json_all : forall n, node_json n.
  Proof.
    apply node_ind'; unfold node_json.
    - (* text *)
      intros t facts dst dot a a' out s c Ha Hok Hj Hd He Hi Hs. simpl in Ha, He. inversion He; subst out.
      destruct (inst_cons _ _ _ Hi) as [h [r [-> [Hh Hr]]]]. inversion Hr; subst. rewrite append_nil_r.
      inversion Hh; subst. inversion H2; subst. rewrite append_nil_r. eapply sim_run; eauto.
    - (* action *)
      intros p facts dst dot a a' out s c Ha Hok Hj Hd He Hi Hs. simpl in Ha, He.
      destruct (pipe_safe p) eqn:Hps; [|discriminate].
      destruct (ty_pipe sch facts dst p) as [st|] eqn:Hp; [|discriminate].
      destruct (hole_of sch st) as [h|] eqn:Hh; [|discriminate].
      apply bind_ok in He. destruct He as [v [Hv He]]. inversion He; subst out.
      destruct (pipe_sound _ _ _ _ _ _ Hp Hok) as [v' [Hv' Hokv]].
      rewrite Hv in Hv'. inversion Hv'; subst v'.
      pose proof (pipe_inv sch facts Hnames _ _ _ _ _ Hp Hv Hps Hj Hd) as Hinv.
      pose proof (print_inst sch facts Hnames _ _ _ Hokv Hinv Hh _ Hi) as Hi'.
      eapply piece_sound; eauto.
    - (* if *)
      intros p th el Hth Hel facts dst dot a a' out s c Ha Hok Hj Hd He Hi Hs. simpl in Ha, He.
      destruct (ty_pipe sch facts dst p) as [st|] eqn:Hp; [|discriminate].
      match type of Ha with match ?x with _ => _ end = _ => destruct x as [a1|] eqn:E1 end; [|discriminate].
      destruct (seq_arun (arun_node sch facts dst) el a) as [a2|] eqn:E2; [|discriminate].
      apply bind_ok in He. destruct He as [v [Hv He]].
      apply bind_ok in He. destruct He as [b [Hb He]].
      destruct b.
      + pose proof (guard_ok _ _ _ _ _ _ Hok Hv Hb) as Hok'.
        destruct (seq_json th Hth _ _ _ _ _ _ _ _ E1 Hok' Hj Hd He Hi Hs) as [c1 [Hc1 Hs1]].
        exists c1. split; [assumption|]. eapply sim_join; eauto.
      + destruct (seq_json el Hel _ _ _ _ _ _ _ _ E2 Hok Hj Hd He Hi Hs) as [c1 [Hc1 Hs1]].
        exists c1. split; [assumption|]. eapply sim_join; eauto.
    - (* range *)
      intros p body el Hbody Hel facts dst dot a a' out s c Ha Hok Hj Hd He Hi Hs. simpl in Ha, He.
      destruct (pipe_safe p) eqn:Hps; [|discriminate].
      destruct (ty_pipe sch facts dst p) as [[t pa j]|] eqn:Hp; [|discriminate].
      destruct t; try discriminate.
      match type of Ha with match ?x with _ => _ end = _ => destruct x as [a1|] eqn:E1 end; [|discriminate].
      destruct (seq_arun (arun_node sch facts dst) el a) as [a2|] eqn:E2; [|discriminate].
      destruct (jstate_eq_dec a1 a) as [->|]; [|discriminate].
      apply bind_ok in He. destruct He as [v [Hv He]].
      destruct (pipe_sound _ _ _ _ _ _ Hp Hok) as [v' [Hv' Hokv]].
      rewrite Hv in Hv'. inversion Hv'; subst v'.
      pose proof (pipe_inv sch facts Hnames _ _ _ _ _ Hp Hv Hps Hj Hd) as Hinv.
      assert (Hsafe : safe_val v = true).
      { unfold inv in Hinv. simpl in Hinv. destruct j; [|assumption]. subst v. destruct Hokv as [_ [Hx _]]. discriminate. }
      destruct Hokv as [Hwv [Htv Hsv]]. simpl in Htv, Hsv.
      destruct v; simpl in Htv; try discriminate; try (subst; simpl in Hwv; discriminate).
      inversion Htv; subst et. simpl in He.
      assert (Hall : forall x, In x l ->
                ok_val sch facts {| s_ty := t; s_path := path_app pa PElem; s_json := false |} x /\ safe_val x = true).
      { intros x Hin. simpl in Hwv, Hsafe. rewrite forallb_forall in Hwv, Hsafe. specialize (Hwv x Hin).
        apply andb_prop in Hwv. destruct Hwv as [Hw1 Hw2]. split; [|auto].
        repeat split; simpl; auto.
        - apply ty_eqb_eq; assumption.
        - intros q Hq. destruct pa as [q0|]; simpl in Hq; [|discriminate]. inversion Hq; subst q.
          eapply elem_sat; eauto. }
      destruct l as [|x0 l0].
      + destruct (seq_json el Hel _ _ _ _ _ _ _ _ E2 Hok Hj Hd He Hi Hs) as [c1 [Hc1 Hs1]].
        exists c1. split; [assumption|]. eapply sim_join; eauto.
      + destruct (loop_json facts body _ (x0 :: l0) a out s c Hbody E1 Hall eq_refl He Hi Hs) as [c1 [Hc1 Hs1]].
        exists c1. split; [assumption|]. eapply sim_join; eauto.
    - (* with *)
      intros p body el Hbody Hel facts dst dot a a' out s c Ha Hok Hj Hd He Hi Hs. simpl in Ha, He.
      destruct (pipe_safe p) eqn:Hps; [|discriminate].
      destruct (ty_pipe sch facts dst p) as [st|] eqn:Hp; [|discriminate].
      destruct (s_json st) eqn:Hjs; [discriminate|].
      match type of Ha with match ?x with _ => _ end = _ => destruct x as [a1|] eqn:E1 end; [|discriminate].
      destruct (seq_arun (arun_node sch facts dst) el a) as [a2|] eqn:E2; [|discriminate].
      apply bind_ok in He. destruct He as [v [Hv He]].
      apply bind_ok in He. destruct He as [b [Hb He]].
      destruct (pipe_sound _ _ _ _ _ _ Hp Hok) as [v' [Hv' Hokv]].
      rewrite Hv in Hv'. inversion Hv'; subst v'.
      pose proof (pipe_inv sch facts Hnames _ _ _ _ _ Hp Hv Hps Hj Hd) as Hinv.
      unfold inv in Hinv. rewrite Hjs in Hinv.
      destruct b.
      + pose proof (with_ok _ _ _ _ Hokv Hb) as Hok'.
        destruct (seq_json body Hbody _ _ _ _ _ _ _ _ E1 Hok' Hjs Hinv He Hi Hs) as [c1 [Hc1 Hs1]].
        exists c1. split; [assumption|]. eapply sim_join; eauto.
      + destruct (seq_json el Hel _ _ _ _ _ _ _ _ E2 Hok Hj Hd He Hi Hs) as [c1 [Hc1 Hs1]].
        exists c1. split; [assumption|]. eapply sim_join; eauto.
    - intros w facts dst dot a a' out s c Ha. simpl in Ha. discriminate.
  Qed.
End RenderNodes.

(* C20, last clause.  If the abstract run of a template over the JSON recogniser ends in an accepting state
   then whatever the template prints - for every value of the schema that satisfies the non-nil facts and whose
   strings are JSON-safe: any status, any number of partitions, either branch of every if - is well-formed JSON,
   however Go fills the holes (inst). *)
Theorem json_wellformed : forall sch facts t,
  json_skeleton_ok sch facts t = true ->
  forall d, has_schema sch d -> satisfies facts d = true -> safe_val d = true ->
  forall out s, exec sch t d = Ok out -> inst out s -> json_valid s = true.
Proof.
  intros sch facts t H d [Hw Ht] Hsat Hsafe out s He Hi.
  unfold json_skeleton_ok in H. apply andb_prop in H. destruct H as [Hn H].
  unfold arun in H.
  destruct (seq_arun (arun_node sch facts (root_sty sch)) t init) as [a'|] eqn:E; [|discriminate].
  assert (Hok : ok_val sch facts (root_sty sch) d).
  { repeat split; simpl; auto. intros p Hp. inversion Hp; subst p. apply satisfies_sat; assumption. }
  destruct (seq_json sch t (proj2 (Forall_forall _ _) (fun n _ => node_json_all sch Hn n))
              _ _ _ _ _ _ _ init E Hok eq_refl Hsafe He Hi (sim_refl _)) as [c' [Hc Hs]].
  unfold json_valid. rewrite Hc. eapply sim_accepting; eauto.
Qed.

(* ---- JSON-safe data built from an evaluator reply --------------------------------------------- *)

Definition ksafe (k : kval) : bool :=
  match k with KStr s => safe_string s | KFloat b => b | KVal v => safe_val v | KInt _ => true end.

Lemma assoc_in : forall {A} n (l : list (string * A)) x, assoc n l = Some x -> In (n, x) l \/ exists n', In (n', x) l.
Proof.
  induction l as [|[k a] r IH]; simpl; intros x H; [discriminate|].
  destruct (String.eqb n k); [inversion H; subst; right; eauto|].
  destruct (IH _ H) as [Hi|[n' Hi]]; right; eauto.
Qed.

Lemma build_struct_safe : forall sch tn known,
  forallb (fun p => ksafe (snd p)) known = true -> safe_val (build_struct sch tn known) = true.
Proof.
  intros sch tn known H. unfold build_struct. simpl. apply forallb_forall. intros [n v] Hin.
  apply in_map_iff in Hin. destruct Hin as [[n0 t] [Heq _]]. unfold build_field in Heq. simpl in Heq.
  inversion Heq; subst n v. clear Heq. simpl.
  destruct (assoc n0 known) as [k|] eqn:Ea.
  - assert (Hk : ksafe k = true).
    { rewrite forallb_forall in H. destruct (assoc_in _ _ _ Ea) as [Hi|[n' Hi]]; apply (H _ Hi). }
    destruct (kbuild sch k t) as [v|] eqn:Eb; [|reflexivity].
    destruct k; simpl in Eb, Hk.
    + destruct (ty_eqb t TStr); inversion Eb; subst; exact Hk.
    + destruct (is_int_ty sch t); inversion Eb; subst; reflexivity.
    + destruct (ty_eqb t TFloat); inversion Eb; subst v; exact Hk.
    + destruct (ty_eqb (type_of v0) t); inversion Eb; subst; exact Hk.
  - destruct (zero_of sch t) as [z|] eqn:Ez; [|reflexivity]. eapply zero_safe; eauto.
Qed.

Section SafeStatus.
  Variable sch : schema.
  Variable nm : Z -> string.

  Definition part_safe (p : Eval.pstatus) : bool :=
    safe_string (nm (Eval.ps_topic p)) && safe_string (nm (Eval.ps_owner p)) &&
    safe_string (nm (Eval.ps_client p)) && f32_finite (Eval.ps_complete p).

  (* JSON-safe names (and finite completeness ratios) throughout a group status *)
  Definition group_safe (g : Eval.gstatus) : bool :=
    f32_finite (Eval.gs_complete g) && forallb part_safe (Eval.gs_partitions g) &&
    match Eval.gs_maxlag g with Some p => part_safe p | None => true end.

  Lemma lag_val_safe : forall l, safe_val (lag_val sch l) = true.
  Proof. intros [z|]; [|reflexivity]. simpl. apply build_struct_safe. reflexivity. Qed.

  Lemma offset_val_safe : forall o, safe_val (offset_val sch o) = true.
  Proof.
    intros [c|]; [|reflexivity]. simpl. apply build_struct_safe. simpl. rewrite lag_val_safe. reflexivity.
  Qed.

  Lemma part_val_safe : forall p, part_safe p = true -> safe_val (part_val sch nm p) = true.
  Proof.
    intros p H. unfold part_safe in H. repeat (apply andb_prop in H; destruct H as [H ?]).
    unfold part_val. simpl. apply build_struct_safe. simpl.
    rewrite !offset_val_safe. repeat (apply andb_true_intro; split); auto.
  Qed.

  Lemma data_safe : forall cl gr id ex g,
    safe_string cl = true -> safe_string gr = true -> safe_string id = true ->
    forallb (fun kv => safe_string (snd kv)) ex = true -> group_safe g = true ->
    safe_val (data_of sch nm cl gr id ex g) = true.
  Proof.
    intros cl gr id ex g Hcl Hgr Hid Hex Hg. unfold group_safe in Hg.
    apply andb_prop in Hg. destruct Hg as [Hg Hm]. apply andb_prop in Hg. destruct Hg as [Hc Hp].
    unfold data_of. apply build_struct_safe. simpl. rewrite Hcl, Hgr, Hid. simpl.
    apply andb_true_intro. split.
    - apply forallb_forall. intros x Hx. apply in_map_iff in Hx. destruct Hx as [kv [<- Hin]]. simpl.
      rewrite forallb_forall in Hex. auto.
    - rewrite andb_true_r. unfold group_val. apply build_struct_safe. simpl. rewrite Hcl, Hgr, Hc. simpl.
      apply andb_true_intro. split.
      + apply forallb_forall. intros x Hx. apply in_map_iff in Hx. destruct Hx as [p [<- Hin]].
        apply part_val_safe. rewrite forallb_forall in Hp. auto.
      + rewrite andb_true_r. destruct (Eval.gs_maxlag g); [apply part_val_safe; assumption|reflexivity].
  Qed.
End SafeStatus.

(* C20, last clause, end to end: a template whose abstract run is accepted renders to well-formed JSON for every
   status the evaluator can hand to a notifier, provided the names are JSON-safe.
   _partial: that the completeness ratios are finite is a hypothesis here (part of group_safe).  The evaluator
   only ever divides by a positive count (caching.go:246-250, 295), so they are; deriving it from Eval.v needs
   Flocq's division theorem and is not done. *)
Theorem json_every_status_partial : forall sch t,
  embed_ok sch = true -> json_skeleton_ok sch burrow_facts t = true ->
  forall ts minimum allowed now g, Eval.eval_group ts minimum allowed now = Eval.Ok g ->
  forall nm cl gr id ex,
    safe_string cl = true -> safe_string gr = true -> safe_string id = true ->
    forallb (fun kv => safe_string (snd kv)) ex = true -> group_safe nm (Eval.filter_view g) = true ->
    forall out s, exec sch t (data_of sch nm cl gr id ex (Eval.filter_view g)) = Ok out -> inst out s ->
    json_valid s = true.
Proof.
  intros sch t He Hj ts minimum allowed now g Hg nm cl gr id ex Hcl Hgr Hid Hex Hs out s Hout Hi.
  eapply json_wellformed; eauto.
  - apply data_has_schema; assumption.
  - eapply facts_hold; eauto.
  - apply data_safe; assumption.
Qed.

(* ---- finiteness of the completeness ratios (F32Proofs: float32 division of integers up to 2^24) -------- *)
From Burrow Require F32Proofs EvalCompleteProofs.

(* at most 2^24 partitions in the group and at most 2^24 slots in every partition's window *)
Definition bounded (ts : list (Z * list Eval.cpart)) : Prop :=
  (Z.of_nat (List.length (EvalCompleteProofs.all_parts ts)) <= 2 ^ 24)%Z /\
  Forall (fun p => (Z.of_nat (List.length (Eval.cp_offsets p)) <= 2 ^ 24)%Z) (EvalCompleteProofs.all_parts ts).

Lemma partition_complete_finite : forall p minimum allowed now s st en c,
  (Z.of_nat (List.length (Eval.cp_offsets p)) <= 2 ^ 24)%Z ->
  Eval.eval_partition p minimum allowed now = Eval.Ok (s, st, en, c) -> f32_finite c = true.
Proof.
  intros p minimum allowed now s st en c Hn. unfold Eval.eval_partition. cbv zeta.
  destruct (List.length (Eval.cp_offsets p)) as [|n0] eqn:En.
  - intros H; injection H as _ _ _ <-. apply F32Proofs.f32_zero_R.
  - match goal with |- context [skipn ?f (Eval.cp_offsets p)] => set (offs := skipn f (Eval.cp_offsets p)) end.
    assert (Hk : (List.length offs <= S n0)%nat) by (subst offs; rewrite skipn_length, En; lia).
    match goal with |- context [if (List.length offs <? S n0)%nat then ?a else ?b] =>
      set (complete := if (List.length offs <? S n0)%nat then a else b) end.
    assert (Hfin : f32_finite complete = true).
    { subst complete. destruct (List.length offs <? S n0)%nat.
      - apply F32Proofs.f32_div_correct_frac; lia.
      - apply F32Proofs.f32_one_R. }
    clearbody complete. destruct offs as [|o r]; [intros H; injection H as _ _ _ <-; exact Hfin|].
    destruct (F32.f32_ge complete minimum).
    + destruct (Eval.calc_status _ _ _ _ _); [|discriminate]. intros H; injection H as _ _ _ <-; exact Hfin.
    + intros H; injection H as _ _ _ <-; exact Hfin.
Qed.

Lemma group_finite : forall ts minimum allowed now g,
  bounded ts -> Eval.eval_group ts minimum allowed now = Eval.Ok g ->
  f32_finite (Eval.gs_complete g) = true /\
  Forall (fun s => f32_finite (Eval.ps_complete s) = true) (Eval.gs_partitions g) /\
  (forall m, Eval.gs_maxlag g = Some m -> f32_finite (Eval.ps_complete m) = true).
Proof.
  intros ts minimum allowed now g [Hlen Hall] Hg.
  destruct (EvalGroupProofs.eval_group_spec _ _ _ _ _ Hg) as (parts & E & Hp & _ & Hmx & _ & _ & _ & Hc).
  pose proof (EvalCompleteProofs.eval_topics_parts _ _ _ _ _ E) as HF.
  assert (Hl : List.length parts = List.length (EvalCompleteProofs.all_parts ts)) by (clear -HF; induction HF; simpl; auto).
  assert (Hparts : Forall (fun s => f32_finite (Eval.ps_complete s) = true) parts).
  { clear Hl Hlen Hc Hmx Hp E Hg. induction HF as [|p s ps l (st & st' & en & Hev) _ IH]; constructor.
    - inversion Hall; subst. eapply partition_complete_finite; eauto.
    - apply IH. inversion Hall; assumption. }
  split; [|split].
  - rewrite Hc. destruct (0 <? Z.of_nat (List.length parts))%Z eqn:E0; [|apply F32Proofs.f32_zero_R].
    apply Z.ltb_lt in E0.
    pose proof (EvalCompleteProofs.filter_len_le EvalGroupProofs.is_complete parts) as Hf.
    apply F32Proofs.f32_div_correct_frac; unfold EvalGroupProofs.count_complete; lia.
  - rewrite Hp. exact Hparts.
  - intros m Hm. rewrite Hmx in Hm. pose proof (EvalGroupProofs.maxlag_is_max parts) as Hmax.
    rewrite Hm in Hmax. destruct Hmax as [Hin _]. rewrite Forall_forall in Hparts. auto.
Qed.

Section SafeNames.
  Variable nm : Z -> string.

  Definition part_names_safe (p : Eval.pstatus) : bool :=
    safe_string (nm (Eval.ps_topic p)) && safe_string (nm (Eval.ps_owner p)) && safe_string (nm (Eval.ps_client p)).

  (* JSON-safe topic, owner and client names throughout a group status *)
  Definition group_names_safe (g : Eval.gstatus) : bool :=
    forallb part_names_safe (Eval.gs_partitions g) &&
    match Eval.gs_maxlag g with Some p => part_names_safe p | None => true end.

  Lemma group_safe_of : forall ts minimum allowed now g,
    bounded ts -> Eval.eval_group ts minimum allowed now = Eval.Ok g ->
    group_names_safe (Eval.filter_view g) = true -> group_safe nm (Eval.filter_view g) = true.
  Proof.
    intros ts minimum allowed now g Hb Hg Hn.
    destruct (group_finite _ _ _ _ _ Hb Hg) as [Hc [Hp Hm]].
    unfold group_names_safe in Hn. apply andb_prop in Hn. destruct Hn as [Hn1 Hn2].
    unfold group_safe. simpl in *. rewrite Hc. simpl.
    apply andb_true_intro. split.
    - apply forallb_forall. intros s Hs. rewrite forallb_forall in Hn1. specialize (Hn1 s Hs).
      apply filter_In in Hs. destruct Hs as [Hin _]. rewrite Forall_forall in Hp. specialize (Hp s Hin).
      change (part_safe nm s) with (part_names_safe s && f32_finite (Eval.ps_complete s)). rewrite Hn1, Hp. reflexivity.
    - destruct (Eval.gs_maxlag g) as [m|]; [|reflexivity].
      change (part_safe nm m) with (part_names_safe m && f32_finite (Eval.ps_complete m)). rewrite Hn2, (Hm m eq_refl). reflexivity.
  Qed.
End SafeNames.

(* C20, last clause, end to end, full: for every status the evaluator can hand to a notifier - a group of at most 2^24
   partitions whose windows have at most 2^24 slots - a template whose abstract run is accepted renders to well-formed
   JSON, provided cluster, group, event id, extras, topic, owner and client names are JSON-safe. *)
Theorem json_every_status : forall sch t,
  embed_ok sch = true -> json_skeleton_ok sch burrow_facts t = true ->
  forall ts minimum allowed now g, bounded ts -> Eval.eval_group ts minimum allowed now = Eval.Ok g ->
  forall nm cl gr id ex,
    safe_string cl = true -> safe_string gr = true -> safe_string id = true ->
    forallb (fun kv => safe_string (snd kv)) ex = true -> group_names_safe nm (Eval.filter_view g) = true ->
    forall out s, exec sch t (data_of sch nm cl gr id ex (Eval.filter_view g)) = Ok out -> inst out s ->
    json_valid s = true.
Proof.
  intros sch t He Hj ts minimum allowed now g Hb Hg nm cl gr id ex Hcl Hgr Hid Hex Hn out s Hout Hi.
  exact (json_every_status_partial sch t He Hj ts minimum allowed now g Hg nm cl gr id ex Hcl Hgr Hid Hex
           (group_safe_of nm ts minimum allowed now g Hb Hg Hn) out s Hout Hi).
Qed.

(* ---- the regenerated tables ------------------------------------------------------------------- *)

Theorem shipped_render : forall sch (tbl : list (string * tmpl)),
  embed_ok sch = true -> forallb (fun p => typecheck sch (snd p) burrow_facts) tbl = true ->
  forall name t, In (name, t) tbl ->
  forall ts minimum allowed now g, Eval.eval_group ts minimum allowed now = Eval.Ok g ->
  forall nm cl gr id ex, exists out, exec sch t (data_of sch nm cl gr id ex (Eval.filter_view g)) = Ok out.
Proof.
  intros sch tbl He Hall name t Hin. rewrite forallb_forall in Hall. specialize (Hall _ Hin). simpl in Hall.
  intros. eapply renders_every_status; eauto.
Qed.

Theorem shipped_json_partial : forall sch (tbl : list (string * tmpl)) (names : list string),
  embed_ok sch = true ->
  forallb (fun n => json_skeleton_ok sch burrow_facts (lookup_tmpl tbl n)) names = true ->
  forall name, In name names ->
  forall ts minimum allowed now g, Eval.eval_group ts minimum allowed now = Eval.Ok g ->
  forall nm cl gr id ex,
    safe_string cl = true -> safe_string gr = true -> safe_string id = true ->
    forallb (fun kv => safe_string (snd kv)) ex = true -> group_safe nm (Eval.filter_view g) = true ->
    forall out s, exec sch (lookup_tmpl tbl name) (data_of sch nm cl gr id ex (Eval.filter_view g)) = Ok out ->
    inst out s -> json_valid s = true.
Proof.
  intros sch tbl names He Hall name Hin. rewrite forallb_forall in Hall. specialize (Hall _ Hin).
  intros ts minimum allowed now g Hg nm cl gr id ex Hcl Hgr Hid Hex Hs out s Hout Hi.
  exact (json_every_status_partial sch _ He Hall ts minimum allowed now g Hg nm cl gr id ex Hcl Hgr Hid Hex Hs out s Hout Hi).
Qed.

Theorem shipped_json : forall sch (tbl : list (string * tmpl)) (names : list string),
  embed_ok sch = true ->
  forallb (fun n => json_skeleton_ok sch burrow_facts (lookup_tmpl tbl n)) names = true ->
  forall name, In name names ->
  forall ts minimum allowed now g, bounded ts -> Eval.eval_group ts minimum allowed now = Eval.Ok g ->
  forall nm cl gr id ex,
    safe_string cl = true -> safe_string gr = true -> safe_string id = true ->
    forallb (fun kv => safe_string (snd kv)) ex = true -> group_names_safe nm (Eval.filter_view g) = true ->
    forall out s, exec sch (lookup_tmpl tbl name) (data_of sch nm cl gr id ex (Eval.filter_view g)) = Ok out ->
    inst out s -> json_valid s = true.
Proof.
  intros sch tbl names He Hall name Hin. rewrite forallb_forall in Hall. specialize (Hall _ Hin).
  intros ts minimum allowed now g Hb Hg nm cl gr id ex Hcl Hgr Hid Hex Hs out s Hout Hi.
  exact (json_every_status sch _ He Hall ts minimum allowed now g Hb Hg nm cl gr id ex Hcl Hgr Hid Hex Hs out s Hout Hi).
Qed.

(* ---- configured modules: the association composed with the theorems about the shipped templates ---------- *)

Definition mc_file (m : modcfg) (good : bool) : string := if good then mc_close m else mc_open m.

Lemma module_renders_file : forall sch tbl cfg m good d,
  NoDup (map mc_name cfg) -> In m cfg -> (good = true -> mc_send_close m = true) ->
  module_renders sch tbl cfg (mc_name m) good d = exec sch (lookup_tmpl tbl (mc_file m good)) d.
Proof.
  intros sch tbl cfg m good d Hnd Hin Hg.
  destruct (module_renders_configured_template sch tbl cfg m d Hnd Hin) as [Ho Hc].
  destruct good; simpl; [apply Hc, Hg; reflexivity|exact Ho].
Qed.

(* every module configured with shipped template files renders, for an open notification and - if it sends them -
   for a close notification, for every status the evaluator can hand to a notifier *)
Theorem configured_modules_render : forall sch (tbl : list (string * tmpl)) cfg,
  embed_ok sch = true -> forallb (fun p => typecheck sch (snd p) burrow_facts) tbl = true ->
  NoDup (map mc_name cfg) ->
  forall m good, In m cfg -> (good = true -> mc_send_close m = true) -> assoc (mc_file m good) tbl <> None ->
  forall ts minimum allowed now g, Eval.eval_group ts minimum allowed now = Eval.Ok g ->
  forall nm cl gr id ex,
    exists out, module_renders sch tbl cfg (mc_name m) good (data_of sch nm cl gr id ex (Eval.filter_view g)) = Ok out.
Proof.
  intros sch tbl cfg He Hall Hnd m good Hin Hg Hf ts minimum allowed now g Hev nm cl gr id ex.
  rewrite (module_renders_file sch tbl cfg m good _ Hnd Hin Hg).
  unfold lookup_tmpl. destruct (assoc (mc_file m good) tbl) as [t|] eqn:Ea; [|contradiction].
  exact (shipped_render sch tbl He Hall _ t (assoc_In _ _ _ Ea) ts minimum allowed now g Hev nm cl gr id ex).
Qed.

Theorem configured_modules_json : forall sch (tbl : list (string * tmpl)) (names : list string) cfg,
  embed_ok sch = true ->
  forallb (fun n => json_skeleton_ok sch burrow_facts (lookup_tmpl tbl n)) names = true ->
  NoDup (map mc_name cfg) ->
  forall m good, In m cfg -> (good = true -> mc_send_close m = true) -> In (mc_file m good) names ->
  forall ts minimum allowed now g, bounded ts -> Eval.eval_group ts minimum allowed now = Eval.Ok g ->
  forall nm cl gr id ex,
    safe_string cl = true -> safe_string gr = true -> safe_string id = true ->
    forallb (fun kv => safe_string (snd kv)) ex = true -> group_names_safe nm (Eval.filter_view g) = true ->
    forall out s,
      module_renders sch tbl cfg (mc_name m) good (data_of sch nm cl gr id ex (Eval.filter_view g)) = Ok out ->
      inst out s -> json_valid s = true.
Proof.
  intros sch tbl names cfg He Hall Hnd m good Hin Hg Hf ts minimum allowed now g Hb Hev nm cl gr id ex
         Hcl Hgr Hid Hex Hs out s Hout Hi.
  rewrite (module_renders_file sch tbl cfg m good _ Hnd Hin Hg) in Hout.
  exact (shipped_json sch tbl names He Hall _ Hf ts minimum allowed now g Hb Hev nm cl gr id ex Hcl Hgr Hid Hex Hs out s Hout Hi).
Qed.

(* ---- sequences of notifications ------------------------------------------------------------------- *)

(* the template value of the record a module builds (the start time is opaque to templates apart from its methods) *)
Definition tdata_value (sch : schema) (nm : Z -> string) (d : tdata Eval.gstatus) : value :=
  data_of sch nm (td_cluster d) (td_group d) (td_id d) (td_extras d) (td_result d).

(* what the evaluator can send to the notifier: the problems-only view of an evaluation, or the NOTFOUND reply for a
   group it does not know (which the notifier drops before any template runs: coordinator.go:400-404, Notifier.v
   live_resp / on_response - included here so that nothing depends on that) *)
Definition evaluator_reply (g : Eval.gstatus) : Prop :=
  (exists ts minimum allowed now g0, Eval.eval_group ts minimum allowed now = Eval.Ok g0 /\ g = Eval.filter_view g0)
  \/ g = notfound_reply.

Lemma evaluator_reply_ends : forall g, evaluator_reply g ->
  Forall (fun s => Eval.ps_start s <> None /\ Eval.ps_end s <> None) (Eval.gs_partitions g).
Proof.
  intros g [(ts & mi & al & now & g0 & Hev & ->)| ->].
  - eapply listed_partitions_have_ends; eauto.
  - constructor.
Qed.

(* every notification of a sequence handed to a configured module renders, on data that carries the configured
   extras and that notification's incident - however many notifications the module has sent before *)
Theorem notified_module_renders : forall sch (tbl : list (string * tmpl)) cfg,
  embed_ok sch = true -> forallb (fun p => typecheck sch (snd p) burrow_facts) tbl = true ->
  NoDup (map mc_name cfg) ->
  forall m good, In m cfg -> (good = true -> mc_send_close m = true) -> assoc (mc_file m good) tbl <> None ->
  forall extras sent (l : list (notification Eval.gstatus)) nm k n d,
    Forall (fun n => evaluator_reply (nt_status n)) l ->
    nth_error l k = Some n -> nth_error (run_notifications (mkMstate extras sent) l) k = Some d ->
    d = notify_data extras n /\
    exists out, module_renders sch tbl cfg (mc_name m) good (tdata_value sch nm d) = Ok out.
Proof.
  intros sch tbl cfg He Hall Hnd m good Hin Hg Hf extras sent l nm k n d Hl Hn Hd.
  rewrite module_data_offers_configured in Hd. rewrite nth_error_map, Hn in Hd. simpl in Hd. inversion Hd; subst d.
  split; [reflexivity|].
  rewrite Forall_forall in Hl. pose proof (evaluator_reply_ends _ (Hl n (nth_error_In _ _ Hn))) as Hends.
  unfold tdata_value, notify_data. simpl.
  rewrite (module_renders_file sch tbl cfg m good _ Hnd Hin Hg).
  unfold lookup_tmpl. destruct (assoc (mc_file m good) tbl) as [t|] eqn:Ea; [|contradiction].
  rewrite forallb_forall in Hall. pose proof (Hall _ (assoc_In _ _ _ Ea)) as Ht. simpl in Ht.
  eapply renders_with_ends; eauto.
Qed.

(* ---- jsonencoder never fails on what the evaluator produces ---------------------------------------- *)
(* templateJSONEncoder discards json.Marshal's error and returns "" (helpers.go:64-67), which in a value position is
   malformed JSON without any render error; the model does the same (Tmpl.apply_fn FJson: a value containing a non-finite
   float gives the empty string).  For the Go types of the template data json.Marshal can fail only on a NaN / infinite
   float (all map keys are strings, there are no channels, functions or cycles, the MarshalJSON methods of StatusConstant
   and Lag marshal a string / a number): what follows shows that no value the templates can reach in the data built from
   an evaluator reply (within the 2^24 bounds) contains one. *)

Definition kfinite (k : kval) : bool :=
  match k with KFloat b => b | KVal v => negb (contains_nonfinite v) | _ => true end.

Lemma existsb_false : forall {A} (f : A -> bool) l, (forall x, In x l -> f x = false) -> existsb f l = false.
Proof.
  induction l as [|a r IH]; simpl; intros H; [reflexivity|].
  rewrite (H a (or_introl eq_refl)), IH; auto.
Qed.

Lemma zero_finite : forall sch t z, zero_of sch t = Some z -> contains_nonfinite z = false.
Proof.
  intros sch t z H. destruct t; simpl in H; try discriminate; try (inversion H; subst; reflexivity).
  destruct (is_named_int sch n); [|discriminate]. inversion H; reflexivity.
Qed.

Lemma build_struct_finite : forall sch tn known,
  forallb (fun p => kfinite (snd p)) known = true -> contains_nonfinite (build_struct sch tn known) = false.
Proof.
  intros sch tn known H. unfold build_struct. simpl. apply existsb_false. intros [n v] Hin.
  apply in_map_iff in Hin. destruct Hin as [[n0 t] [Heq _]]. unfold build_field in Heq. simpl in Heq.
  inversion Heq; subst n v. clear Heq. simpl.
  destruct (assoc n0 known) as [k|] eqn:Ea.
  - assert (Hk : kfinite k = true).
    { rewrite forallb_forall in H. exact (H _ (assoc_In _ _ _ Ea)). }
    destruct (kbuild sch k t) as [v|] eqn:Eb; [|reflexivity].
    destruct k; simpl in Eb, Hk.
    + destruct (ty_eqb t TStr); inversion Eb; subst; reflexivity.
    + destruct (is_int_ty sch t); inversion Eb; subst; reflexivity.
    + destruct (ty_eqb t TFloat); inversion Eb; subst v. simpl. rewrite Hk. reflexivity.
    + destruct (ty_eqb (type_of v0) t); inversion Eb; subst. apply negb_true_iff in Hk. exact Hk.
  - destruct (zero_of sch t) as [z|] eqn:Ez; [|reflexivity]. eapply zero_finite; eauto.
Qed.

Lemma lag_val_finite : forall sch l, contains_nonfinite (lag_val sch l) = false.
Proof. intros sch [z|]; [|reflexivity]. simpl. apply build_struct_finite. reflexivity. Qed.

Lemma offset_val_finite : forall sch o, contains_nonfinite (offset_val sch o) = false.
Proof.
  intros sch [c|]; [|reflexivity]. simpl. apply build_struct_finite. simpl. rewrite lag_val_finite. reflexivity.
Qed.

Lemma part_val_finite : forall sch nm p, f32_finite (Eval.ps_complete p) = true ->
  contains_nonfinite (part_val sch nm p) = false.
Proof.
  intros sch nm p H. unfold part_val. simpl. apply build_struct_finite. simpl.
  rewrite !offset_val_finite, H. reflexivity.
Qed.

Lemma data_finite : forall sch nm cl gr id ex g,
  f32_finite (Eval.gs_complete g) = true ->
  Forall (fun s => f32_finite (Eval.ps_complete s) = true) (Eval.gs_partitions g) ->
  (forall m, Eval.gs_maxlag g = Some m -> f32_finite (Eval.ps_complete m) = true) ->
  contains_nonfinite (data_of sch nm cl gr id ex g) = false.
Proof.
  intros sch nm cl gr id ex g Hc Hp Hm. unfold data_of. apply build_struct_finite. simpl.
  assert (He : existsb (fun p : string * value => contains_nonfinite (snd p))
                 (map (fun kv : string * string => (fst kv, VStr (snd kv))) ex) = false).
  { apply existsb_false. intros x Hx. apply in_map_iff in Hx. destruct Hx as [kv [<- _]]. reflexivity. }
  rewrite He. simpl. rewrite andb_true_r. apply negb_true_iff.
  unfold group_val. apply build_struct_finite. simpl. rewrite Hc. simpl.
  assert (Hl : existsb contains_nonfinite (map (part_val sch nm) (Eval.gs_partitions g)) = false).
  { apply existsb_false. intros x Hx. apply in_map_iff in Hx. destruct Hx as [p [<- Hin]].
    apply part_val_finite. rewrite Forall_forall in Hp. auto. }
  rewrite Hl. simpl. rewrite andb_true_r. apply negb_true_iff.
  destruct (Eval.gs_maxlag g) as [m|]; [apply part_val_finite; auto|reflexivity].
Qed.

Lemma indirect_finite : forall v u, indirect v = Some u -> contains_nonfinite v = false -> contains_nonfinite u = false.
Proof.
  induction v; intros u H Hs; simpl in H; try discriminate; try (inversion H; subst; exact Hs).
  match goal with IH : forall u, _ -> _ -> _ |- _ => eapply IH; eauto end.
Qed.

Lemma assoc_finite : forall name (fs : list (string * value)) x,
  assoc name fs = Some x -> existsb (fun p => contains_nonfinite (snd p)) fs = false -> contains_nonfinite x = false.
Proof.
  induction fs as [|[k a] r IH]; simpl; intros x Ha H; [discriminate|].
  apply orb_false_iff in H. destruct H as [H1 H2].
  destruct (String.eqb name k); [inversion Ha; subst; exact H1|auto].
Qed.

Lemma field_step_finite : forall sch evargs noargs recv name x,
  field_step sch evargs noargs recv name = Ok x -> contains_nonfinite recv = false -> contains_nonfinite x = false.
Proof.
  unfold field_step. intros sch evargs noargs recv name x H Hs.
  destruct (indirect recv) as [v|] eqn:Hi; [|discriminate].
  pose proof (indirect_finite _ _ Hi Hs) as Hv.
  destruct (match vnamed v with Some tn => method_of sch tn name | None => None end) as [m|].
  - destruct (m_ptr m); [discriminate|].
    apply bind_ok in H. destruct H as [vs [_ H]]. unfold method_result in H.
    destruct (m_results m) as [|[] [|]]; try discriminate.
    destruct v; try (inversion H; reflexivity). destruct t; try (inversion H; reflexivity).
    destruct (String.eqb n (sch_status_ty sch) && String.eqb name "String"); inversion H; reflexivity.
  - destruct v; try discriminate. destruct noargs; [|discriminate].
    destruct (assoc name fs) as [y|] eqn:Ha; [|discriminate]. inversion H; subst.
    eapply assoc_finite; eauto.
Qed.

Lemma chain0_finite : forall sch chain v x,
  eval_chain0 sch v chain = Ok x -> contains_nonfinite v = false -> contains_nonfinite x = false.
Proof.
  induction chain as [|f r IH]; simpl; intros v x H Hs.
  - inversion H; subst; assumption.
  - apply bind_ok in H. destruct H as [y [Hy H]]. eapply IH; eauto. eapply field_step_finite; eauto.
Qed.

(* jsonencoder_total: whatever part of the data a template passes to jsonencoder - for every evaluator reply about a
   group within the bounds - is marshalable: the helper returns the marshalled text, never the empty string *)
Theorem jsonencoder_total : forall ts minimum allowed now g,
  bounded ts -> Eval.eval_group ts minimum allowed now = Eval.Ok g ->
  forall sch nm cl gr id ex chain v,
    eval_chain0 sch (data_of sch nm cl gr id ex (Eval.filter_view g)) chain = Ok v ->
    contains_nonfinite v = false /\ apply_fn sch FJson [v] = Ok (VAbsStr true).
Proof.
  intros ts minimum allowed now g Hb Hg sch nm cl gr id ex chain v Hv.
  destruct (group_finite _ _ _ _ _ Hb Hg) as [Hc [Hp Hm]].
  assert (Hd : contains_nonfinite (data_of sch nm cl gr id ex (Eval.filter_view g)) = false).
  { apply data_finite; simpl; auto.
    apply Forall_forall. intros s Hs. apply filter_In in Hs. rewrite Forall_forall in Hp. apply Hp. tauto. }
  pose proof (chain0_finite _ _ _ _ Hv Hd) as Hf. split; [exact Hf|]. simpl. rewrite Hf. reflexivity.
Qed.
