(* Concurrent model of InMemoryStorage (C08): every request handler of core/internal/storage/inmemory.go split
   into atomic STEPS at the code's lock boundaries, an interleaving semantics over any number of workers, and the
   router assumption.

   A step of a worker runs it from where it is parked in front of a lock ACQUISITION (or from the start of its
   next request: the prologue, which touches only configuration) up to its next acquisition or the end of the
   handler; releases happen inside steps.  This is exactly what the schedule probe does to the real code
   (probes/storageconc): lock/unlock call sites are rewritten into scheduler yield points, a schedule is a list of
   worker ids.  The shared state is Storage.state (builder "lag"'s sequential model); a handler's steps run without
   interruption are Storage.step (StorageConcProofs.run_alone_refines).

   Handlers and their steps (locks: B = brokerLock, C = consumerLock of the cluster, G = lock of one group):
     addBrokerOffset     P ; [B w: body]
     addConsumerOffset   P ; [B r: offset+count] ; [C w: get/create group] ; [G w: place the commit]
     addConsumerOwner    P ; [C w: get/create group] ; [B r: count] ; [G w: set owner]
     clearConsumerOwners P ; [C w: lookup] ; [G w: clear]
     deleteTopic         P ; [C r: start ranging] ; { [G w (holding C r): delete topic] }* ; [B w: delete topic]
     deleteGroup         P ; [C w: lookup / delete] ; [G w (holding C w): delete topic, maybe delete group]
     fetchClusterList    P
     fetchTopicList      P ; [B r]        fetchConsumerList P ; [C r]        fetchTopic P ; [B r]
     fetchConsumer       P ; [C r: lookup, expiry test] ; either [C w: purge]
                             or [G r (holding C r): snapshot] ; [B r: broker offsets and lag]
     fetchConsumersForTopicList  P ; [C r: start ranging] ; { [G r (holding C r): snapshot, test] }*
   A *consumerGroup pointer held across steps is modelled by the group's name; an invariant
   (StorageConcProofs.inv) shows the named group is still the same object whenever it is dereferenced.
   Go map iteration order is the parameter [prio]. *)
From Coq Require Import ZArith List Bool String.
From Burrow Require Import Int64 Eval AMap Ring Storage Lockset.
Import ListNotations.
Open Scope Z_scope.

Definition clock_id := (lockc * Z * Z)%type.          (* lock class, cluster, group (0 for the cluster's locks) *)

Inductive cont :=
| KBroker (c t p cnt off : Z)
| KCommit1 (c g t p off order ts : Z)
| KCommit2 (c g t p off order ts boff cnt : Z)
| KCommit3 (c g t p off order ts boff cnt : Z)
| KOwner1 (c g t p owner client : Z)
| KOwner2 (c g t p owner client : Z)
| KOwner3 (c g t p owner client cnt : Z)
| KClear1 (c g : Z)
| KClear2 (c g : Z)
| KDelT1 (c t : Z)
| KDelT2 (c t : Z) (pending : list Z)
| KDelT3 (c t : Z)
| KDelG1 (c g t : Z)
| KDelG2 (c g t : Z)
| KFetchTopics (c : Z)
| KFetchConsumers (c : Z)
| KFetchTopic (c t : Z)
| KFetchCons1 (c g : Z)
| KFetchConsPurge (c g : Z)
| KFetchCons2 (c g : Z)
| KFetchCons3 (c : Z) (snap : list (Z * list cpart))
| KForTopic1 (c t : Z)
| KForTopic2 (c t : Z) (pending : list Z) (acc : list Z).

(* the lock the parked handler is about to acquire *)
Definition wants (k : cont) : clock_id * lmode :=
  match k with
  | KBroker c _ _ _ _ => ((LBroker, c, 0), MW)
  | KCommit1 c _ _ _ _ _ _ => ((LBroker, c, 0), MR)
  | KCommit2 c _ _ _ _ _ _ _ _ => ((LConsumer, c, 0), MW)
  | KCommit3 c g _ _ _ _ _ _ _ => ((LGroup, c, g), MW)
  | KOwner1 c _ _ _ _ _ => ((LConsumer, c, 0), MW)
  | KOwner2 c _ _ _ _ _ => ((LBroker, c, 0), MR)
  | KOwner3 c g _ _ _ _ _ => ((LGroup, c, g), MW)
  | KClear1 c _ => ((LConsumer, c, 0), MW)
  | KClear2 c g => ((LGroup, c, g), MW)
  | KDelT1 c _ => ((LConsumer, c, 0), MR)
  | KDelT2 c _ pending => ((LGroup, c, hd 0 pending), MW)
  | KDelT3 c _ => ((LBroker, c, 0), MW)
  | KDelG1 c _ _ => ((LConsumer, c, 0), MW)
  | KDelG2 c g _ => ((LGroup, c, g), MW)
  | KFetchTopics c => ((LBroker, c, 0), MR)
  | KFetchConsumers c => ((LConsumer, c, 0), MR)
  | KFetchTopic c _ => ((LBroker, c, 0), MR)
  | KFetchCons1 c _ => ((LConsumer, c, 0), MR)
  | KFetchConsPurge c _ => ((LConsumer, c, 0), MW)
  | KFetchCons2 c g => ((LGroup, c, g), MR)
  | KFetchCons3 c _ => ((LBroker, c, 0), MR)
  | KForTopic1 c _ => ((LConsumer, c, 0), MR)
  | KForTopic2 c _ pending _ => ((LGroup, c, hd 0 pending), MR)
  end.

(* the locks it holds while parked there *)
Definition holds (k : cont) : list (clock_id * lmode) :=
  match k with
  | KDelT2 c _ _ => [((LConsumer, c, 0), MR)]
  | KDelG2 c _ _ => [((LConsumer, c, 0), MW)]
  | KFetchCons2 c _ => [((LConsumer, c, 0), MR)]
  | KForTopic2 c _ _ _ => [((LConsumer, c, 0), MR)]
  | _ => []
  end.

Inductive sres := SNext (st : state) (k : cont) | SDone (st : state) (r : reply) | SCrash.

Definition memz (x : Z) (l : list Z) : bool := existsb (Z.eqb x) l.

Fixpoint dedup (l : list Z) : list Z :=
  match l with [] => [] | x :: r => if memz x r then dedup r else x :: dedup r end.

(* the order in which a `range` over a Go map with key set ks visits the keys: the keys named by prio first, in
   prio's order, then the others; every permutation of ks is visit_order prio ks for some prio *)
Definition visit_order (prio ks : list Z) : list Z :=
  let pr := filter (fun g => memz g ks) (dedup prio) in
  pr ++ filter (fun g => negb (memz g pr)) ks.

(* in-place update of the entries with key k *)
Definition updg {V} (m : amap V) (k : Z) (f : V -> V) : amap V :=
  map (fun kv => if fst kv =? k then (fst kv, f (snd kv)) else kv) m.

Definition set_consumer (st : state) (c : Z) (cl : cluster) (cons : amap cgroup) : state :=
  set st c (mkCluster (cl_broker cl) cons).

(* ---- fetchConsumer's second half after commit 54faa50: partitions the brokers do not report are skipped,
        the lag is computed only when there is a broker offset ---- *)
Definition add_lag_g (r : bring) (cp : cpart) : cpart :=
  let bo := somes r in
  match cp_offsets cp, bo with
  | _ :: _, b0 :: _ =>
      match last (cp_offsets cp) None with
      | Some lo => mkCpart (cp_offsets cp) bo (cp_owner cp) (cp_client cp) (current_lag (last bo b0) (co_offset lo))
      | None => mkCpart (cp_offsets cp) bo (cp_owner cp) (cp_client cp) (cp_lag cp)
      end
  | _, _ => mkCpart (cp_offsets cp) bo (cp_owner cp) (cp_client cp) (cp_lag cp)
  end.

Fixpoint add_lags_g (tl : list bring) (i : nat) (cps : list cpart) : list cpart :=
  match cps with
  | [] => []
  | cp :: rest => (match nth_error tl i with None => cp | Some r => add_lag_g r cp end) :: add_lags_g tl (S i) rest
  end.

Definition fetch_topics_lags_g (broker : amap (list bring)) (tops : list (Z * list cpart)) : list (Z * list cpart) :=
  map (fun tc => (fst tc, match get broker (fst tc) with None => snd tc | Some tl => add_lags_g tl 0 (snd tc) end)) tops.

(* ---- the same loop BEFORE commit 54faa50 (kept to document finding F6(iii)): topicMap[p] and
        BrokerOffsets[len-1] panic when out of range ---- *)
Definition add_lag_old (r : bring) (cp : cpart) : option cpart :=
  let bo := somes r in
  match cp_offsets cp with
  | [] => Some (mkCpart (cp_offsets cp) bo (cp_owner cp) (cp_client cp) (cp_lag cp))
  | _ :: _ =>
      match bo with
      | [] => None                                       (* BrokerOffsets[len-1] on an empty slice *)
      | b0 :: _ =>
          match last (cp_offsets cp) None with
          | Some lo => Some (mkCpart (cp_offsets cp) bo (cp_owner cp) (cp_client cp) (current_lag (last bo b0) (co_offset lo)))
          | None => Some (mkCpart (cp_offsets cp) bo (cp_owner cp) (cp_client cp) (cp_lag cp))
          end
      end
  end.

Fixpoint add_lags_old (tl : list bring) (i : nat) (cps : list cpart) : option (list cpart) :=
  match cps with
  | [] => Some []
  | cp :: rest =>
      match nth_error tl i with
      | None => None                                     (* topicMap[p] out of range *)
      | Some r => match add_lag_old r cp, add_lags_old tl (S i) rest with
                  | Some cp', Some rest' => Some (cp' :: rest')
                  | _, _ => None
                  end
      end
  end.

Fixpoint fetch_topics_lags_old (broker : amap (list bring)) (tops : list (Z * list cpart)) : option (list (Z * list cpart)) :=
  match tops with
  | [] => Some []
  | (t, cps) :: rest =>
      match (match get broker t with None => Some cps | Some tl => add_lags_old tl 0 cps end),
            fetch_topics_lags_old broker rest with
      | Some cps', Some rest' => Some ((t, cps') :: rest')
      | _, _ => None
      end
  end.

Definition snapshot_group (grp : cgroup) : list (Z * list cpart) :=
  map (fun tp => (fst tp, map snapshot_partition (snd tp))) (g_topics grp).

Definition ensure_group (cl : cluster) (g : Z) : amap cgroup :=
  set (cl_consumer cl) g (match get (cl_consumer cl) g with Some x => x | None => empty_group end).

Definition place_commit (cf : config) (grp : cgroup) (t p off order ts boff cnt : Z) : cgroup :=
  let parts := get_consumer_partition cf grp t p cnt in
  let i := Z.to_nat p in
  let pr := nth i parts empty_partition in
  let w := match pr_ring pr with Some w => w | None => [] end in
  let '(w', appended) := ring_step (cf_min_distance cf) w (mkCommit off order ts) (commit_lag boff off) in
  let parts' := set_nth parts i (mkCpartition (Some w') (pr_owner pr) (pr_client pr)) in
  mkCgroup (set (g_topics grp) t parts') (if commit_stored w order then Z.max ts (g_last grp) else g_last grp).

Definition place_owner (cf : config) (grp : cgroup) (t p owner client cnt : Z) : cgroup :=
  let parts := get_consumer_partition cf grp t p cnt in
  let i := Z.to_nat p in
  let pr := nth i parts empty_partition in
  let parts' := set_nth parts i (mkCpartition (pr_ring pr) owner client) in
  mkCgroup (set (g_topics grp) t parts') (g_last grp).

Definition drop_topic (t : Z) (grp : cgroup) : cgroup := mkCgroup (remove (g_topics grp) t) (g_last grp).

Definition has_topic (t : Z) (grp : cgroup) : bool :=
  match get (g_topics grp) t with Some _ => true | None => false end.

Section Exec.
  Variable cf : config.
  Variable now : Z.
  Variable guarded : bool.        (* true: the tree after commit 54faa50; false: fetchConsumer as it was before *)

  (* the prologue of a handler: everything before its first lock acquisition *)
  Definition start (st : state) (r : req) : sres :=
    match r with
    | SetBrokerOffset c t p cnt off =>
        match get st c with None => SDone st RNone | Some _ => SNext st (KBroker c t p cnt off) end
    | SetConsumerOffset c g t p off order ts =>
        match get st c with
        | None => SDone st RNone
        | Some _ => if too_old cf now ts then SDone st RNone
                    else if negb (cf_accept cf g) then SDone st RNone
                    else SNext st (KCommit1 c g t p off order ts)
        end
    | SetConsumerOwner c g t p owner client =>
        match get st c with
        | None => SDone st RNone
        | Some _ => if negb (cf_accept cf g) then SDone st RNone else SNext st (KOwner1 c g t p owner client)
        end
    | ClearConsumerOwners c g =>
        match get st c with
        | None => SDone st RNone
        | Some _ => if negb (cf_accept cf g) then SDone st RNone else SNext st (KClear1 c g)
        end
    | DeleteTopic c t => match get st c with None => SDone st RNone | Some _ => SNext st (KDelT1 c t) end
    | DeleteGroup c g t => match get st c with None => SDone st RNone | Some _ => SNext st (KDelG1 c g t) end
    | FetchClusters => SDone st (RStrings (keys st))
    | FetchConsumers c => match get st c with None => SDone st RNil | Some _ => SNext st (KFetchConsumers c) end
    | FetchTopics c => match get st c with None => SDone st RNil | Some _ => SNext st (KFetchTopics c) end
    | FetchConsumer c g => match get st c with None => SDone st RNil | Some _ => SNext st (KFetchCons1 c g) end
    | FetchTopic c t => match get st c with None => SDone st RNil | Some _ => SNext st (KFetchTopic c t) end
    | FetchConsumersForTopic c t => match get st c with None => SDone st RNil | Some _ => SNext st (KForTopic1 c t) end
    end.

  (* one step from a lock acquisition; SCrash = the Go code panics (or a group pointer is dangling: shown
     unreachable) *)
  (* [prio]: the order in which this step's `range` over the group map visits the groups (Go map iteration order) *)
  Definition exec (prio : list Z) (st : state) (k : cont) : sres :=
    match k with
    | KBroker c t p cnt off =>
        (* intervals = 0: ring.New(0) is nil and topicList[p].Next() dereferences it (inmemory.go addBrokerOffset);
           Storage.add_broker_offset does not model that corner (its theorems carry 1 <= intervals) *)
        if Nat.eqb (cf_intervals cf) O then SCrash else
        match add_broker_offset cf st c t p cnt off with Done st' r => SDone st' r | Crashed => SCrash end
    | KCommit1 c g t p off order ts =>
        match get st c with
        | None => SCrash
        | Some cl => let '(boff, cnt) := get_broker_offset cl t p in
                     if cnt =? 0 then SDone st RNone else SNext st (KCommit2 c g t p off order ts boff cnt)
        end
    | KCommit2 c g t p off order ts boff cnt =>
        match get st c with
        | None => SCrash
        | Some cl => SNext (set_consumer st c cl (ensure_group cl g)) (KCommit3 c g t p off order ts boff cnt)
        end
    | KCommit3 c g t p off order ts boff cnt =>
        match get st c with
        | None => SCrash
        | Some cl => match get (cl_consumer cl) g with
                     | None => SCrash
                     | Some grp => SDone (set_consumer st c cl (set (cl_consumer cl) g (place_commit cf grp t p off order ts boff cnt))) RNone
                     end
        end
    | KOwner1 c g t p owner client =>
        match get st c with
        | None => SCrash
        | Some cl => SNext (set_consumer st c cl (ensure_group cl g)) (KOwner2 c g t p owner client)
        end
    | KOwner2 c g t p owner client =>
        match get st c with
        | None => SCrash
        | Some cl => let '(_, cnt) := get_broker_offset cl t p in
                     if cnt =? 0 then SDone st RNone else SNext st (KOwner3 c g t p owner client cnt)
        end
    | KOwner3 c g t p owner client cnt =>
        match get st c with
        | None => SCrash
        | Some cl => match get (cl_consumer cl) g with
                     | None => SCrash
                     | Some grp => SDone (set_consumer st c cl (set (cl_consumer cl) g (place_owner cf grp t p owner client cnt))) RNone
                     end
        end
    | KClear1 c g =>
        match get st c with
        | None => SCrash
        | Some cl => match get (cl_consumer cl) g with None => SDone st RNone | Some _ => SNext st (KClear2 c g) end
        end
    | KClear2 c g =>
        match get st c with
        | None => SCrash
        | Some cl => match get (cl_consumer cl) g with
                     | None => SCrash
                     | Some grp => SDone (set_consumer st c cl (set (cl_consumer cl) g (clear_owners_group grp))) RNone
                     end
        end
    | KDelT1 c t =>
        match get st c with
        | None => SCrash
        | Some cl => match visit_order prio (keys (cl_consumer cl)) with
                     | [] => SNext st (KDelT3 c t)
                     | ks => SNext st (KDelT2 c t ks)
                     end
        end
    | KDelT2 c t pending =>
        match pending with
        | [] => SCrash
        | g :: rest =>
            match get st c with
            | None => SCrash
            | Some cl => match get (cl_consumer cl) g with
                         | None => SCrash
                         | Some _ => let st' := set_consumer st c cl (updg (cl_consumer cl) g (drop_topic t)) in
                                     match rest with [] => SNext st' (KDelT3 c t) | _ => SNext st' (KDelT2 c t rest) end
                         end
            end
        end
    | KDelT3 c t =>
        match get st c with
        | None => SCrash
        | Some cl => SDone (set st c (mkCluster (remove (cl_broker cl) t) (cl_consumer cl))) RNone
        end
    | KDelG1 c g t =>
        match get st c with
        | None => SCrash
        | Some cl => match get (cl_consumer cl) g with
                     | None => SDone st RNone
                     | Some _ => if t =? 0 then SDone (set_consumer st c cl (remove (cl_consumer cl) g)) RNone
                                 else SNext st (KDelG2 c g t)
                     end
        end
    | KDelG2 c g t =>
        match get st c with
        | None => SCrash
        | Some cl => match get (cl_consumer cl) g with
                     | None => SCrash
                     | Some grp => match remove (g_topics grp) t with
                                   | [] => match get (g_topics grp) t with
                                           | Some _ => SDone (set_consumer st c cl (remove (cl_consumer cl) g)) RNone
                                           | None => SDone (set_consumer st c cl (set (cl_consumer cl) g (mkCgroup [] (g_last grp)))) RNone
                                           end
                                   | tops => SDone (set_consumer st c cl (set (cl_consumer cl) g (mkCgroup tops (g_last grp)))) RNone
                                   end
                     end
        end
    | KFetchTopics c =>
        match get st c with None => SCrash | Some cl => SDone st (RStrings (keys (cl_broker cl))) end
    | KFetchConsumers c =>
        match get st c with None => SCrash | Some cl => SDone st (RStrings (keys (cl_consumer cl))) end
    | KFetchTopic c t =>
        match fetch_topic st c t with Done st' r => SDone st' r | Crashed => SCrash end
    | KFetchCons1 c g =>
        match get st c with
        | None => SCrash
        | Some cl => match get (cl_consumer cl) g with
                     | None => SDone st RNil
                     | Some grp => if expired cf now (g_last grp) then SNext st (KFetchConsPurge c g)
                                   else SNext st (KFetchCons2 c g)
                     end
        end
    | KFetchConsPurge c g =>
        match get st c with
        | None => SCrash
        | Some cl => SDone (set_consumer st c cl (remove (cl_consumer cl) g)) RNil
        end
    | KFetchCons2 c g =>
        match get st c with
        | None => SCrash
        | Some cl => match get (cl_consumer cl) g with
                     | None => SCrash
                     | Some grp => SNext st (KFetchCons3 c (snapshot_group grp))
                     end
        end
    | KFetchCons3 c snap =>
        match get st c with
        | None => SCrash
        | Some cl => if guarded then SDone st (RConsumer (fetch_topics_lags_g (cl_broker cl) snap))
                     else match fetch_topics_lags_old (cl_broker cl) snap with
                          | Some l => SDone st (RConsumer l)
                          | None => SCrash
                          end
        end
    | KForTopic1 c t =>
        match get st c with
        | None => SCrash
        | Some cl => match visit_order prio (keys (cl_consumer cl)) with
                     | [] => SDone st (RStrings [])
                     | ks => SNext st (KForTopic2 c t ks [])
                     end
        end
    | KForTopic2 c t pending acc =>
        match pending with
        | [] => SCrash
        | g :: rest =>
            match get st c with
            | None => SCrash
            | Some cl => match get (cl_consumer cl) g with
                         | None => SCrash
                         | Some grp => let acc' := if has_topic t grp then acc ++ [g] else acc in
                                       match rest with [] => SDone st (RStrings acc') | _ => SNext st (KForTopic2 c t rest acc') end
                         end
            end
        end
    end.

  (* ---- workers, global state, schedules ---- *)
  Record worker := mkWorker { w_queue : list req; w_run : option cont; w_out : list reply }.
  (* g_prios: one iteration order per step that read-locks the consumer list, in the order these steps happen *)
  Record gstate := mkG { g_st : state; g_ws : list worker; g_crashed : bool; g_prios : list (list Z) }.

  Definition consumes_prio (k : cont) : bool :=
    match wants k with ((LConsumer, _, _), MR) => true | _ => false end.

  Definition w_holds (w : worker) : list (clock_id * lmode) :=
    match w_run w with Some k => holds k | None => [] end.

  Definition clock_eqb (a b : clock_id) : bool :=
    let '(la, ca, ga) := a in let '(lb, cb, gb) := b in lockc_eqb la lb && (ca =? cb) && (ga =? gb).

  (* sync.RWMutex: a request is stopped by a writer, a write request also by any reader *)
  Definition stops (want : clock_id * lmode) (h : clock_id * lmode) : bool :=
    clock_eqb (fst want) (fst h) && (is_mw (snd want) || is_mw (snd h)).

  Fixpoint others_stop (want : clock_id * lmode) (ws : list worker) (i me : nat) : bool :=
    match ws with
    | [] => false
    | w :: rest => (negb (Nat.eqb i me) && existsb (stops want) (w_holds w)) || others_stop want rest (S i) me
    end.

  Definition has_work (w : worker) : bool :=
    match w_run w, w_queue w with None, [] => false | _, _ => true end.

  Definition enabled (gs : gstate) (i : nat) : bool :=
    match nth_error (g_ws gs) i with
    | None => false
    | Some w => match w_run w with
                | Some k => negb (others_stop (wants k) (g_ws gs) O i)
                | None => match w_queue w with [] => false | _ => true end
                end
    end.

  Inductive tick :=
  | TIdle                                           (* nothing to do for that worker (or no such worker) *)
  | TBlocked                                        (* its lock is held by a parked worker *)
  | TDead                                           (* the process has crashed *)
  | TStep (acq : option (clock_id * lmode)) (after : option (clock_id * lmode)) (done crashed : bool).

  Definition push_reply (out : list reply) (r : reply) : list reply :=
    match r with RNone => out | _ => out ++ [r] end.

  Definition sched_step (gs : gstate) (i : nat) : gstate * tick :=
    if g_crashed gs then (gs, TDead) else
    match nth_error (g_ws gs) i with
    | None => (gs, TIdle)
    | Some w =>
        match w_run w with
        | None =>
            match w_queue w with
            | [] => (gs, TIdle)
            | r :: q =>
                match start (g_st gs) r with
                | SNext st k => (mkG st (set_nth (g_ws gs) i (mkWorker q (Some k) (w_out w))) false (g_prios gs), TStep None (Some (wants k)) false false)
                | SDone st rep => (mkG st (set_nth (g_ws gs) i (mkWorker q None (push_reply (w_out w) rep))) false (g_prios gs), TStep None None true false)
                | SCrash => (mkG (g_st gs) (g_ws gs) true (g_prios gs), TStep None None false true)
                end
            end
        | Some k =>
            if others_stop (wants k) (g_ws gs) O i then (gs, TBlocked) else
            let prios' := if consumes_prio k then tl (g_prios gs) else g_prios gs in
            match exec (hd [] (g_prios gs)) (g_st gs) k with
            | SNext st k' => (mkG st (set_nth (g_ws gs) i (mkWorker (w_queue w) (Some k') (w_out w))) false prios',
                              TStep (Some (wants k)) (Some (wants k')) false false)
            | SDone st rep => (mkG st (set_nth (g_ws gs) i (mkWorker (w_queue w) None (push_reply (w_out w) rep))) false prios',
                               TStep (Some (wants k)) None true false)
            | SCrash => (mkG (g_st gs) (g_ws gs) true prios', TStep (Some (wants k)) None false true)
            end
        end
    end.

  Fixpoint sched_run (gs : gstate) (sched : list nat) : gstate * list tick :=
    match sched with
    | [] => (gs, [])
    | i :: rest => let '(gs', t) := sched_step gs i in
                   let '(gs'', ts) := sched_run gs' rest in (gs'', t :: ts)
    end.

  (* lowest enabled worker, if any *)
  Fixpoint first_enabled (gs : gstate) (n i : nat) : option nat :=
    match n with
    | O => None
    | S n' => if enabled gs i then Some i else first_enabled gs n' (S i)
    end.

  (* run on, lowest enabled worker first, until nothing is enabled (or fuel runs out) *)
  Fixpoint drain (fuel : nat) (gs : gstate) : gstate * list (nat * tick) :=
    match fuel with
    | O => (gs, [])
    | S f => if g_crashed gs then (gs, []) else
             match first_enabled gs (length (g_ws gs)) O with
             | None => (gs, [])
             | Some i => let '(gs', t) := sched_step gs i in
                         let '(gs'', ts) := drain f gs' in (gs'', (i, t) :: ts)
             end
    end.

  Definition unfinished (gs : gstate) : bool := existsb has_work (g_ws gs).

  Definition init_g (st : state) (queues : list (list req)) (prios : list (list Z)) : gstate :=
    mkG st (map (fun q => mkWorker q None []) queues) false prios.

  (* a request run alone, to completion *)
  Fixpoint run_cont (prio : list Z) (fuel : nat) (st : state) (k : cont) : option (state * reply) :=
    match fuel with
    | O => None
    | S f => match exec prio st k with
             | SNext st' k' => run_cont prio f st' k'
             | SDone st' r => Some (st', r)
             | SCrash => None
             end
    end.

  Definition run_alone (prio : list Z) (fuel : nat) (st : state) (r : req) : option (state * reply) :=
    match start st r with
    | SNext st' k => run_cont prio fuel st' k
    | SDone st' rep => Some (st', rep)
    | SCrash => None
    end.
End Exec.

(* the requests the router hashes by (cluster, group) *)
Definition keyed_group (r : req) : option (Z * Z) :=
  match r with
  | SetConsumerOffset c g _ _ _ _ _ => Some (c, g)
  | SetConsumerOwner c g _ _ _ _ => Some (c, g)
  | ClearConsumerOwners c g => Some (c, g)
  | DeleteGroup c g _ => Some (c, g)
  | FetchConsumer c g => Some (c, g)
  | _ => None
  end.

(* the group a parked handler of a keyed request works on *)
Definition cont_group (k : cont) : option (Z * Z) :=
  match k with
  | KCommit1 c g _ _ _ _ _ | KCommit2 c g _ _ _ _ _ _ _ | KCommit3 c g _ _ _ _ _ _ _ => Some (c, g)
  | KOwner1 c g _ _ _ _ | KOwner2 c g _ _ _ _ | KOwner3 c g _ _ _ _ _ => Some (c, g)
  | KClear1 c g | KClear2 c g => Some (c, g)
  | KDelG1 c g _ | KDelG2 c g _ => Some (c, g)
  | KFetchCons1 c g | KFetchConsPurge c g | KFetchCons2 c g => Some (c, g)
  | _ => None
  end.

(* request kinds as StorageRequestConstant names (tie with gen/RouterTable.v) *)
Local Open Scope string_scope.
Definition req_constant (r : req) : string :=
  match r with
  | SetBrokerOffset _ _ _ _ _ => "StorageSetBrokerOffset"
  | SetConsumerOffset _ _ _ _ _ _ _ => "StorageSetConsumerOffset"
  | SetConsumerOwner _ _ _ _ _ _ => "StorageSetConsumerOwner"
  | ClearConsumerOwners _ _ => "StorageClearConsumerOwners"
  | DeleteTopic _ _ => "StorageSetDeleteTopic"
  | DeleteGroup _ _ _ => "StorageSetDeleteGroup"
  | FetchClusters => "StorageFetchClusters"
  | FetchConsumers _ => "StorageFetchConsumers"
  | FetchTopics _ => "StorageFetchTopics"
  | FetchConsumer _ _ => "StorageFetchConsumer"
  | FetchTopic _ _ => "StorageFetchTopic"
  | FetchConsumersForTopic _ _ => "StorageFetchConsumersForTopic"
  end.
