(* C02: the offset window holds the newest N commits in log order. *)
From Coq Require Import ZArith List Bool Lia Sorted Permutation.
From Burrow Require Import Int64 Int64Proofs Eval Ring.
Import ListNotations.
Open Scope Z_scope.

(* ---------- shape of a ring ---------- *)
Definition ord_gt (a b : coff) : Prop := co_order b < co_order a.
Definition desc (cs : list coff) : Prop := Sorted ord_gt cs.     (* newest first, strictly decreasing order *)

Definition shape (r : ring) (cs : list coff) (b : nat) : Prop := r = map Some cs ++ repeat None b.
Definition wf (n : nat) (r : ring) : Prop :=
  exists cs b, shape r cs b /\ desc cs /\ (length cs + b = n)%nat.

Lemma desc_strong cs : desc cs -> StronglySorted ord_gt cs.
Proof. apply Sorted_StronglySorted. intros a b c; unfold ord_gt; lia. Qed.

Lemma desc_tail c cs : desc (c :: cs) -> desc cs.
Proof. intros H; inversion H; assumption. Qed.

Lemma desc_head_gt c cs x : desc (c :: cs) -> In x cs -> co_order x < co_order c.
Proof.
  intros H Hx. apply desc_strong in H. inversion H as [|? ? _ Hall]; subst.
  rewrite Forall_forall in Hall. apply Hall; exact Hx.
Qed.

Lemma removelast_app_cons {A} (l : list A) x : removelast (l ++ [x]) = l.
Proof. apply removelast_last. Qed.

Lemma repeat_snoc {A} (x : A) n : repeat x (S n) = repeat x n ++ [x].
Proof. induction n; [reflexivity|]. cbn [repeat app] in *. f_equal. exact IHn. Qed.

Lemma removelast_shape_blank cs b :
  removelast (map Some cs ++ repeat (@None coff) (S b)) = map Some cs ++ repeat None b.
Proof. rewrite repeat_snoc, app_assoc. apply removelast_last. Qed.

Lemma removelast_map_some (cs : list coff) : removelast (map Some cs) = map Some (removelast cs).
Proof.
  induction cs as [|c cs IH]; [reflexivity|]. destruct cs as [|c' cs]; [reflexivity|].
  change (removelast (map Some (c :: c' :: cs))) with (Some c :: removelast (map Some (c' :: cs))).
  rewrite IH. reflexivity.
Qed.

Lemma last_shape cs b :
  last (map Some cs ++ repeat (@None coff) b) None =
  match b with O => (match cs with [] => None | _ => Some (last cs (mkCoff 0 0 0 None)) end) | S _ => None end.
Proof.
  destruct b as [|b].
  - cbn [repeat]. rewrite app_nil_r. induction cs as [|c cs IH]; [reflexivity|].
    destruct cs as [|c' cs]; [reflexivity|].
    change (last (map Some (c :: c' :: cs)) None) with (last (map Some (c' :: cs)) None).
    rewrite IH. reflexivity.
  - rewrite repeat_snoc, app_assoc. apply last_last.
Qed.

(* ---------- the search loop on a well-shaped ring ---------- *)
Definition above (order : Z) (c : coff) : Prop := order < co_order c.

Lemma scan_shape cs b order :
  desc cs ->
  match scan (map Some cs ++ repeat None b) order with
  | PDrop => (exists c, In c cs /\ co_order c = order) \/ (cs = [] /\ b = O)
  | PAppend => False
  | PReplace a x bl =>
      exists hi, a = map Some hi /\ Forall (above order) hi /\
        ((x = None /\ exists b', b = S b' /\ bl = repeat None b' /\ cs = hi) \/
         (exists ol, x = Some ol /\ bl = [] /\ b = O /\ cs = hi ++ [ol] /\ above order ol))
  | PShift a pv bl =>
      exists hi lo, a = map Some hi /\ cs = hi ++ pv :: lo /\ Forall (above order) hi /\
        co_order pv < order /\ bl = map Some lo ++ repeat None b
  end.
Proof.
  induction cs as [|c cs IH]; intros Hd.
  - cbn [map app]. destruct b as [|b]; cbn [repeat scan].
    + right; auto.
    + exists []. split; [reflexivity|]. split; [constructor|]. left. split; [reflexivity|]. exists b. auto.
  - cbn [map app scan].
    destruct (co_order c <? order) eqn:E1.
    { apply Z.ltb_lt in E1. exists [], cs. repeat split; auto; constructor. }
    apply Z.ltb_ge in E1. destruct (co_order c =? order) eqn:E2.
    { apply Z.eqb_eq in E2. left. exists c. split; [left; reflexivity|exact E2]. }
    apply Z.eqb_neq in E2.
    assert (Hc : above order c) by (unfold above; lia).
    specialize (IH (desc_tail _ _ Hd)).
    destruct (map Some cs ++ repeat None b) as [|y below] eqn:Eb.
    + exists []. split; [reflexivity|]. split; [constructor|]. right.
      destruct cs; [|discriminate]. destruct b; [|discriminate]. exists c. auto.
    + destruct (scan (y :: below) order) as [| |a x bl|a pv bl]; cbn [push].
      * destruct IH as [(c' & Hin & Ho)|[-> ->]]; [|discriminate].
        left. exists c'. split; [right; exact Hin|exact Ho].
      * exact IH.
      * destruct IH as (hi & -> & Hall & Hx). exists (c :: hi). split; [reflexivity|].
        split; [constructor; assumption|].
        destruct Hx as [(-> & b' & -> & -> & ->)|(ol & -> & -> & -> & -> & Hol)].
        -- left. split; [reflexivity|]. exists b'. auto.
        -- right. exists ol. auto.
      * destruct IH as (hi & lo & -> & -> & Hall & Hlt & ->).
        exists (c :: hi), lo. repeat split; auto.
Qed.

(* ---------- sortedness helpers ---------- *)
Lemma desc_app_inv l1 l2 : desc (l1 ++ l2) -> desc l1 /\ desc l2.
Proof.
  induction l1 as [|a l1 IH]; cbn [app]; intros H; [split; [constructor|exact H]|].
  inversion H as [|? ? Hs Hh]; subst. destruct (IH Hs) as [H1 H2]. split; [|exact H2].
  constructor; [exact H1|]. destruct l1; [constructor|]. inversion Hh; subst. constructor; assumption.
Qed.

Lemma desc_app l1 l2 :
  desc l1 -> desc l2 -> (forall a b, In a l1 -> In b l2 -> co_order b < co_order a) -> desc (l1 ++ l2).
Proof.
  induction l1 as [|a l1 IH]; cbn [app]; intros H1 H2 Hc; [exact H2|].
  inversion H1 as [|? ? Hs Hh]; subst. constructor.
  - apply IH; auto. intros x y Hx Hy. apply Hc; [right; exact Hx|exact Hy].
  - destruct l1 as [|a' l1]; cbn [app].
    + destruct l2 as [|b l2]; constructor. apply Hc; left; reflexivity.
    + inversion Hh; subst. constructor; assumption.
Qed.

Lemma desc_removelast cs : desc cs -> desc (removelast cs).
Proof.
  intros H. destruct cs as [|c cs]; [exact H|].
  destruct (exists_last (l := c :: cs) ltac:(discriminate)) as (l' & x & E). rewrite E in *.
  rewrite removelast_last. apply (desc_app_inv _ _ H).
Qed.

Lemma desc_all_gt hi x lo : desc (hi ++ x :: lo) -> Forall (fun c => co_order x < co_order c) hi.
Proof.
  induction hi as [|a hi IH]; cbn [app]; intros H; [constructor|].
  constructor.
  - eapply desc_head_gt; [exact H|]. apply in_or_app. right. left. reflexivity.
  - apply IH. eapply desc_tail; exact H.
Qed.

Lemma desc_all_lt hi x lo : desc (hi ++ x :: lo) -> Forall (fun c => co_order c < co_order x) lo.
Proof.
  intros H. apply desc_app_inv in H. destruct H as [_ H]. rewrite Forall_forall. intros y Hy.
  eapply desc_head_gt; eauto.
Qed.

(* inserting v between hi (all above) and lo (all below) keeps the order *)
Lemma desc_insert hi v lo :
  desc (hi ++ lo) -> Forall (fun c => co_order v < co_order c) hi -> Forall (fun c => co_order c < co_order v) lo ->
  desc (hi ++ v :: lo).
Proof.
  intros H Hhi Hlo. destruct (desc_app_inv _ _ H) as [H1 H2]. rewrite Forall_forall in Hhi, Hlo.
  apply desc_app; [exact H1| |].
  - constructor; [exact H2|]. destruct lo; constructor. apply Hlo. left; reflexivity.
  - intros a b Ha [<-|Hb]; [apply Hhi; exact Ha|].
    specialize (Hhi a Ha). specialize (Hlo b Hb). lia.
Qed.

(* ---------- abstract description of one arrival ---------- *)
Definition fresh (c : commit) (lag : option Z) : coff := mkCoff (cm_offset c) (cm_order c) (cm_ts c) lag.
Definition merged (pv : coff) (c : commit) (lag : option Z) : coff := mkCoff (cm_offset c) (cm_order c) (co_ts pv) lag.

(* (hi, lo): hi = the stored commits later in the log than [order] *)
Fixpoint split_at (order : Z) (cs : list coff) : list coff * list coff :=
  match cs with
  | [] => ([], [])
  | c :: r => if order <? co_order c then let (hi, lo) := split_at order r in (c :: hi, lo) else ([], cs)
  end.

Definition abs_step (md : Z) (cs : list coff) (b : nat) (c : commit) (lag_app : Z) : list coff * nat * bool :=
  let (hi, lo) := split_at (cm_order c) cs in
  let lag := match hi with [] => Some lag_app | _ => None end in
  let app := match hi with [] => true | _ => false end in
  match lo with
  | pv :: lo' =>
      if co_order pv =? cm_order c then (cs, b, false)                     (* already stored *)
      else if merges md pv c then (hi ++ merged pv c lag :: lo', b, app)   (* replaces its predecessor *)
      else match b with
           | S b' => (hi ++ fresh c lag :: lo, b', app)                    (* takes a free slot *)
           | O => (hi ++ fresh c lag :: removelast lo, O, app)             (* pushes the oldest out *)
           end
  | [] =>
      match b with
      | S b' => (hi ++ [fresh c lag], b', app)
      | O => (cs, O, false)                                                (* older than a full window *)
      end
  end.

Lemma split_at_spec order hi lo :
  Forall (above order) hi -> match lo with [] => True | x :: _ => co_order x <= order end ->
  split_at order (hi ++ lo) = (hi, lo).
Proof.
  intros Hhi Hlo. induction Hhi as [|c hi Hc _ IH]; cbn [app split_at].
  - destruct lo as [|x lo]; [reflexivity|]. cbn [split_at].
    destruct (order <? co_order x) eqn:E; [apply Z.ltb_lt in E; lia|reflexivity].
  - unfold above in Hc. apply Z.ltb_lt in Hc. rewrite Hc, IH. reflexivity.
Qed.

Lemma split_at_head_le order c cs : co_order c <= order -> split_at order (c :: cs) = ([], c :: cs).
Proof. intros H. cbn [split_at]. destruct (order <? co_order c) eqn:E; [apply Z.ltb_lt in E; lia|reflexivity]. Qed.

Lemma split_at_all_above order cs : Forall (above order) cs -> split_at order cs = (cs, []).
Proof. intros H. rewrite <- (app_nil_r cs) at 1. apply split_at_spec; auto. Qed.

Lemma desc_last_le c cs : desc (c :: cs) -> co_order (last (c :: cs) (mkCoff 0 0 0 None)) <= co_order c.
Proof.
  intros H. destruct cs as [|c' cs]; [cbn; lia|].
  assert (In (last (c :: c' :: cs) (mkCoff 0 0 0 None)) (c' :: cs)).
  { change (last (c :: c' :: cs) (mkCoff 0 0 0 None)) with (last (c' :: cs) (mkCoff 0 0 0 None)).
    clear. revert c'. induction cs as [|x cs IH]; intros c'; [left; reflexivity|].
    right. apply (IH x). }
  pose proof (desc_head_gt _ _ _ H H0). lia.
Qed.

Lemma desc_all_ge_last cs x : desc cs -> In x cs -> co_order (last cs (mkCoff 0 0 0 None)) <= co_order x.
Proof.
  induction cs as [|c cs IH]; intros Hd Hin; [destruct Hin|]. destruct Hin as [<-|Hin].
  - apply desc_last_le; exact Hd.
  - destruct cs as [|c' cs]; [destruct Hin|].
    change (last (c :: c' :: cs) (mkCoff 0 0 0 None)) with (last (c' :: cs) (mkCoff 0 0 0 None)).
    apply IH; [eapply desc_tail; exact Hd|exact Hin].
Qed.

Definition d0 : coff := mkCoff 0 0 0 None.

Lemma find_place_cons nw cs1 b order :
  find_place (map Some (nw :: cs1) ++ repeat None b) order =
  if (match b with O => order <=? co_order (last (nw :: cs1) d0) | S _ => false end) then PDrop
  else if order <=? co_order nw then scan (map Some (nw :: cs1) ++ repeat None b) order else PAppend.
Proof.
  unfold find_place. cbn [map app].
  change (Some nw :: map Some cs1 ++ repeat None b) with (map Some (nw :: cs1) ++ repeat None b).
  rewrite last_shape. destruct b; reflexivity.
Qed.

(* full window, not later than the oldest stored commit: nothing changes *)
Lemma abs_step_old md cs c lag :
  desc cs -> cs <> [] -> cm_order c <= co_order (last cs d0) -> abs_step md cs O c lag = (cs, O, false).
Proof.
  intros Hd Hne Hle. unfold abs_step. set (order := cm_order c) in *.
  destruct (Z_lt_dec order (co_order (last cs d0))) as [Hlt|Hge].
  - rewrite split_at_all_above; [reflexivity|].
    rewrite Forall_forall. intros y Hy. unfold above.
    pose proof (desc_all_ge_last cs y Hd Hy). unfold d0 in *. lia.
  - assert (Heq : order = co_order (last cs d0)) by lia.
    destruct (exists_last Hne) as (l' & ol & El). rewrite El in *. rewrite last_last in Heq.
    rewrite split_at_spec; [| |lia].
    + rewrite <- Heq, Z.eqb_refl. reflexivity.
    + eapply Forall_impl; [|apply (desc_all_gt l' ol [] Hd)]. intros a Ha; unfold above; cbn beta in Ha; lia.
Qed.

(* later than the newest stored commit: append *)
Lemma store_append_abs md nw cs1 b c lag :
  co_order nw < cm_order c ->
  (store md (map Some (nw :: cs1) ++ repeat None b) PAppend c (Some lag), true) =
  (let '(cs', b', app) := abs_step md (nw :: cs1) b c lag in (map Some cs' ++ repeat None b', app)).
Proof.
  intros Hlt. unfold abs_step.
  rewrite split_at_head_le by lia.
  cbn [store hd map app].
  replace (co_order nw =? cm_order c) with false by (symmetry; apply Z.eqb_neq; lia).
  fold (merged nw c (Some lag)). fold (fresh c (Some lag)).
  destruct (merges md nw c); [reflexivity|].
  destruct b as [|b'].
  - cbn [repeat]. rewrite !app_nil_r.
    change (Some nw :: map Some cs1) with (map Some (nw :: cs1)). rewrite removelast_map_some. reflexivity.
  - change (Some nw :: map Some cs1 ++ repeat None (S b')) with (map Some (nw :: cs1) ++ repeat None (S b')).
    rewrite removelast_shape_blank. reflexivity.
Qed.

Lemma merges_false_le md pv c : cm_order c <= co_order pv -> merges md pv c = false.
Proof. intros H. unfold merges. destruct (co_order pv <? cm_order c) eqn:E; [apply Z.ltb_lt in E; lia|reflexivity]. Qed.

(* not later than the newest stored commit (and, on a full window, later than the oldest): the search loop *)
Lemma scan_store_abs md cs nw b c lag :
  desc cs -> hd_error cs = Some nw -> cm_order c <= co_order nw ->
  (b = O -> co_order (last cs d0) < cm_order c) ->
  match scan (map Some cs ++ repeat None b) (cm_order c) with
  | PDrop => (map Some cs ++ repeat None b, false)
  | PAppend => (store md (map Some cs ++ repeat None b) PAppend c (Some lag), true)
  | PReplace a x bl => (store md (map Some cs ++ repeat None b) (PReplace a x bl) c None, false)
  | PShift a pv bl => (store md (map Some cs ++ repeat None b) (PShift a pv bl) c None, false)
  end =
  (let '(cs', b', app) := abs_step md cs b c lag in (map Some cs' ++ repeat None b', app)).
Proof.
  intros Hd Hhd Hnw Hold. set (order := cm_order c) in *.
  pose proof (scan_shape cs b order Hd) as Hsc.
  destruct (scan (map Some cs ++ repeat None b) order) as [| |a x bl|a pv bl].
  - (* duplicate *)
    destruct Hsc as [(x & Hin & Hx)|[Hcs _]]; [|subst cs; discriminate].
    destruct (in_split _ _ Hin) as (hi & lo & E).
    unfold abs_step. fold order. rewrite E in Hd. rewrite E at 2.
    rewrite split_at_spec; [| |lia].
    + rewrite Hx, Z.eqb_refl. reflexivity.
    + eapply Forall_impl; [|apply (desc_all_gt hi x lo Hd)]. intros y Hy; unfold above; cbn beta in Hy; lia.
  - contradiction.
  - destruct Hsc as (hi & -> & Hall & [(-> & b' & -> & -> & Ecs)|(ol & -> & -> & -> & Ecs & Hol)]).
    + (* fills the free slot just below the stored commits *)
      unfold abs_step. fold order. rewrite split_at_all_above by (rewrite Ecs; exact Hall).
      subst hi.
      assert (Hst : store md (map Some cs ++ repeat None (S b')) (PReplace (map Some cs) None (repeat None b')) c None =
                    map Some cs ++ Some (fresh c None) :: repeat None b').
      { unfold store. fold (fresh c None). destruct b' as [|b'']; cbn [repeat]; [|reflexivity].
        destruct cs as [|x cs1]; [discriminate|]. injection Hhd as ->.
        cbn [map app hd]. rewrite merges_false_le by exact Hnw. reflexivity. }
      rewrite Hst. destruct cs as [|x cs1]; [discriminate|].
      rewrite map_app, <- app_assoc. reflexivity.
    + (* would replace an oldest commit that is later in the log: excluded by the full-window test *)
      exfalso. specialize (Hold eq_refl). rewrite Ecs, last_last in Hold. unfold above in Hol. lia.
  - destruct Hsc as (hi & lo & -> & Ecs & Hall & Hlt & ->).
    assert (Hhi : hi <> []).
    { intros ->. cbn [app] in Ecs. rewrite Ecs in Hhd. injection Hhd as <-. lia. }
    unfold abs_step. fold order. rewrite Ecs at 2.
    rewrite split_at_spec by (auto; lia).
    replace (co_order pv =? order) with false by (symmetry; apply Z.eqb_neq; lia).
    destruct hi as [|h0 hi']; [congruence|].
    unfold store. fold (fresh c None). fold (merged pv c None).
    destruct (merges md pv c).
    + rewrite map_app. cbn [map]. rewrite <- app_assoc. reflexivity.
    + destruct b as [|b'].
      * cbn [repeat]. rewrite !app_nil_r.
        change (Some pv :: map Some lo) with (map Some (pv :: lo)). rewrite removelast_map_some.
        rewrite map_app. cbn [map]. reflexivity.
      * change (Some pv :: map Some lo ++ repeat None (S b')) with (map Some (pv :: lo) ++ repeat None (S b')).
        rewrite removelast_shape_blank, map_app. cbn [map]. rewrite <- app_assoc. reflexivity.
Qed.

(* The ring operations of the code, on a ring of the documented shape, do exactly [abs_step]. *)
Theorem ring_step_abs md cs b c lag :
  desc cs ->
  ring_step md (map Some cs ++ repeat None b) c lag =
  (let '(cs', b', app) := abs_step md cs b c lag in (map Some cs' ++ repeat None b', app)).
Proof.
  intros Hd. unfold ring_step.
  destruct cs as [|nw cs1].
  { (* no commit stored yet *)
    unfold find_place. cbn [map app]. unfold abs_step. cbn [split_at]. destruct b as [|b']; cbn [repeat]; [reflexivity|].
    cbn [store hd]. change (None :: repeat None b') with (map Some (@nil coff) ++ repeat None (S b')).
    rewrite removelast_shape_blank. reflexivity. }
  rewrite find_place_cons.
  destruct (match b with O => cm_order c <=? co_order (last (nw :: cs1) d0) | S _ => false end) eqn:Eold.
  { destruct b; [|discriminate]. apply Z.leb_le in Eold.
    rewrite abs_step_old; [reflexivity|exact Hd|discriminate|exact Eold]. }
  destruct (cm_order c <=? co_order nw) eqn:Enw.
  - apply Z.leb_le in Enw.
    assert (Hold : b = O -> co_order (last (nw :: cs1) d0) < cm_order c).
    { intros ->. apply Z.leb_gt in Eold. exact Eold. }
    pose proof (scan_store_abs md (nw :: cs1) nw b c lag Hd eq_refl Enw Hold) as H.
    destruct (scan (map Some (nw :: cs1) ++ repeat None b) (cm_order c)); exact H.
  - apply Z.leb_gt in Enw. apply store_append_abs; exact Enw.
Qed.

(* ---------- consequences, stated on the abstract step ---------- *)
Lemma split_at_props order cs hi lo :
  split_at order cs = (hi, lo) ->
  cs = hi ++ lo /\ Forall (above order) hi /\ match lo with [] => True | x :: _ => co_order x <= order end.
Proof.
  revert hi lo; induction cs as [|c cs IH]; intros hi lo; cbn [split_at].
  - intros H; injection H as <- <-. repeat split; constructor.
  - destruct (order <? co_order c) eqn:E.
    + destruct (split_at order cs) as [hi' lo'] eqn:Es. intros H; injection H as <- <-.
      destruct (IH _ _ eq_refl) as (-> & Hh & Hl). repeat split; auto. constructor; [apply Z.ltb_lt; exact E|exact Hh].
    + intros H; injection H as <- <-. apply Z.ltb_ge in E. repeat split; auto; constructor.
Qed.

Lemma desc_remove_mid hi x lo : desc (hi ++ x :: lo) -> desc (hi ++ lo).
Proof.
  intros H. pose proof (desc_all_gt _ _ _ H) as Hhi. pose proof (desc_all_lt _ _ _ H) as Hlo.
  destruct (desc_app_inv _ _ H) as [H1 H2]. apply desc_app; [exact H1|eapply desc_tail; exact H2|].
  rewrite Forall_forall in Hhi, Hlo. intros a b Ha Hb. specialize (Hhi a Ha). specialize (Hlo b Hb). lia.
Qed.

Lemma removelast_app_cons2 {A} (l : list A) x (m : list A) : m <> [] -> removelast (l ++ x :: m) = l ++ x :: removelast m.
Proof.
  intros Hm. rewrite removelast_app by discriminate. f_equal. cbn [removelast]. destruct m; [congruence|reflexivity].
Qed.

(* window_shape: the abstract step keeps the commits strictly ordered and the number of slots constant *)
Theorem abs_step_shape md cs b c lag cs' b' app :
  desc cs -> abs_step md cs b c lag = (cs', b', app) ->
  desc cs' /\ (length cs' + b' = length cs + b)%nat.
Proof.
  intros Hd. unfold abs_step. destruct (split_at (cm_order c) cs) as [hi lo] eqn:Es.
  destruct (split_at_props _ _ _ _ Es) as (Ecs & Hhi & Hlo). subst cs.
  set (lagv := match hi with [] => Some lag | _ => None end).
  assert (Hfr : forall (v : coff), co_order v = cm_order c -> Forall (fun x => co_order v < co_order x) hi).
  { intros v Hv. eapply Forall_impl; [|exact Hhi]. intros a Ha; unfold above in Ha; lia. }
  destruct lo as [|pv lo'].
  - destruct b as [|b0]; intros H; injection H as <- <- <-; [split; [exact Hd|reflexivity]|].
    split; [|rewrite !app_length; cbn; lia].
    rewrite app_nil_r in Hd. apply desc_insert; [rewrite app_nil_r; exact Hd|apply Hfr; reflexivity|constructor].
  - destruct (co_order pv =? cm_order c) eqn:Edup; [intros H; injection H as <- <- <-; split; [exact Hd|reflexivity]|].
    apply Z.eqb_neq in Edup. assert (Hpv : co_order pv < cm_order c) by lia.
    pose proof (desc_all_lt _ _ _ Hd) as Hlo'.
    assert (Hins : forall v, co_order v = cm_order c -> desc (hi ++ v :: pv :: lo')).
    { intros v Hv. apply desc_insert; [exact Hd|apply Hfr; exact Hv|].
      constructor; [lia|]. eapply Forall_impl; [|exact Hlo']. intros a Ha; cbn beta in Ha; lia. }
    destruct (merges md pv c).
    + intros H; injection H as <- <- <-. split; [|rewrite !app_length; cbn; lia].
      apply desc_insert; [eapply desc_remove_mid; exact Hd|apply Hfr; reflexivity|].
      eapply Forall_impl; [|exact Hlo']. intros a Ha; cbn beta in Ha; cbn; lia.
    + destruct b as [|b0]; intros H; injection H as <- <- <-.
      * split.
        -- change (desc (hi ++ fresh c lagv :: removelast (pv :: lo'))).
           rewrite <- removelast_app_cons2 by discriminate. apply desc_removelast. apply Hins; reflexivity.
        -- change (length (hi ++ fresh c lagv :: removelast (pv :: lo')) + 0 = length (hi ++ pv :: lo') + 0)%nat.
           assert (length (removelast (pv :: lo')) = length lo').
           { clear. revert pv. induction lo' as [|x l IH]; intros pv; [reflexivity|].
             change (removelast (pv :: x :: l)) with (pv :: removelast (x :: l)). cbn [length]. rewrite IH. reflexivity. }
           rewrite !app_length. cbn [length]. lia.
      * split; [apply Hins; reflexivity|rewrite !app_length; cbn; lia].
Qed.

Definition top (cs : list coff) : option Z := match cs with [] => None | c :: _ => Some (co_order c) end.

(* window_newest_last: the newest stored commit is the latest in the log of everything that arrived *)
Theorem abs_step_top md cs b c lag cs' b' app :
  desc cs -> (1 <= length cs + b)%nat -> abs_step md cs b c lag = (cs', b', app) ->
  top cs' = Some (match top cs with None => cm_order c | Some o => Z.max o (cm_order c) end).
Proof.
  intros Hd Hn. unfold abs_step. destruct (split_at (cm_order c) cs) as [hi lo] eqn:Es.
  destruct (split_at_props _ _ _ _ Es) as (Ecs & Hhi & Hlo). subst cs.
  destruct hi as [|h hi'].
  - cbn [List.app] in *. destruct lo as [|pv lo'].
    + destruct b as [|b0]; [cbn in Hn; lia|]. intros H; injection H as <- <- <-. reflexivity.
    + destruct (co_order pv =? cm_order c) eqn:Edup.
      * apply Z.eqb_eq in Edup. intros H; injection H as <- <- <-. cbn. f_equal. lia.
      * apply Z.eqb_neq in Edup. destruct (merges md pv c); [|destruct b]; intros H; injection H as <- <- <-; cbn; f_equal; lia.
  - inversion Hhi as [|? ? Hh _]; subst. unfold above in Hh.
    assert (E : forall l, top ((h :: hi') ++ l) = Some (co_order h)) by reflexivity.
    destruct lo as [|pv lo']; [destruct b|destruct (co_order pv =? cm_order c); [|destruct (merges md pv c); [|destruct b]]];
      intros H; injection H as <- <- <-; cbn [top List.app]; f_equal; lia.
Qed.

(* merge_spec: a commit whose predecessor in the log is stored and closer than the minimum distance
   replaces that predecessor's offset and log position, keeps its timestamp, and takes no slot *)
Theorem abs_step_merge md cs b c lag hi pv lo' :
  split_at (cm_order c) cs = (hi, pv :: lo') -> co_order pv < cm_order c -> merges md pv c = true ->
  abs_step md cs b c lag =
  (hi ++ merged pv c (match hi with [] => Some lag | _ => None end) :: lo', b, match hi with [] => true | _ => false end).
Proof.
  intros Es Hlt Hm. unfold abs_step. rewrite Es.
  replace (co_order pv =? cm_order c) with false by (symmetry; apply Z.eqb_neq; lia). rewrite Hm. reflexivity.
Qed.

(* ... and otherwise it takes a slot of its own (pushing the oldest out of a full window) *)
Theorem abs_step_no_merge md cs b c lag hi lo :
  split_at (cm_order c) cs = (hi, lo) ->
  match lo with [] => True | pv :: _ => co_order pv < cm_order c /\ merges md pv c = false end ->
  abs_step md cs b c lag =
  match b, lo with
  | O, [] => (cs, O, false)
  | O, _ => (hi ++ fresh c (match hi with [] => Some lag | _ => None end) :: removelast lo, O, match hi with [] => true | _ => false end)
  | S b', _ => (hi ++ fresh c (match hi with [] => Some lag | _ => None end) :: lo, b', match hi with [] => true | _ => false end)
  end.
Proof.
  intros Es Hlo. unfold abs_step. rewrite Es. destruct lo as [|pv lo'].
  - destruct b; reflexivity.
  - destruct Hlo as [Hlt Hm].
    replace (co_order pv =? cm_order c) with false by (symmetry; apply Z.eqb_neq; lia). rewrite Hm.
    destruct b; reflexivity.
Qed.

(* when the merge test fires, in mathematical terms (no wrap-around for sane timestamps) *)
Definition ts_ok (t : Z) : Prop := - 4611686018427387904 < t < 4611686018427387904.   (* |t| < 2^62 *)
Definition md_ok (md : Z) : Prop := 0 <= md < 4611686018427387.                         (* md*1000 < 2^62 *)

Lemma merges_spec md pv c :
  ts_ok (co_ts pv) -> ts_ok (cm_ts c) -> md_ok md ->
  (merges md pv c = true <-> co_order pv < cm_order c /\ cm_ts c - co_ts pv < 1000 * md).
Proof.
  unfold ts_ok, md_ok, merges. intros Hp Hc Hm.
  rewrite andb_true_iff, !Z.ltb_lt.
  assert (E1 : sub64 (cm_ts c) (co_ts pv) = cm_ts c - co_ts pv) by (apply wrap64_id; unfold in_i64, two63; lia).
  assert (E2 : mul64 md 1000 = md * 1000) by (apply wrap64_id; unfold in_i64, two63; lia).
  rewrite E1, E2. lia.
Qed.

(* ---------- top-N by log position when nothing merges ---------- *)
Definition triple := (Z * Z * Z)%type.                       (* offset, log position, timestamp *)
Definition proj (c : coff) : triple := (co_offset c, co_order c, co_ts c).
Definition pc (c : commit) : triple := (cm_offset c, cm_order c, cm_ts c).
Definition t_order (t : triple) : Z := snd (fst t).

Fixpoint insert_desc (v : triple) (l : list triple) : list triple :=
  match l with
  | [] => [v]
  | x :: r => if t_order x <? t_order v then v :: l
              else if t_order x =? t_order v then l
              else x :: insert_desc v r
  end.

Lemma insert_desc_split v hi lo :
  Forall (fun x => t_order v < t_order x) hi ->
  match lo with [] => True | x :: _ => t_order x <= t_order v end ->
  insert_desc v (hi ++ lo) =
  hi ++ match lo with [] => [v] | x :: _ => if t_order x =? t_order v then lo else v :: lo end.
Proof.
  intros Hhi Hlo. induction Hhi as [|h hi Hh _ IH]; cbn [List.app insert_desc].
  - destruct lo as [|x lo]; [reflexivity|]. cbn [insert_desc].
    destruct (t_order x <? t_order v) eqn:E1.
    + apply Z.ltb_lt in E1. replace (t_order x =? t_order v) with false by (symmetry; apply Z.eqb_neq; lia). reflexivity.
    + apply Z.ltb_ge in E1. assert (t_order x = t_order v) by lia. rewrite H, Z.eqb_refl. reflexivity.
  - replace (t_order h <? t_order v) with false by (symmetry; apply Z.ltb_ge; lia).
    replace (t_order h =? t_order v) with false by (symmetry; apply Z.eqb_neq; lia).
    rewrite IH. reflexivity.
Qed.

Lemma firstn_insert_firstn n v S : firstn n (insert_desc v (firstn n S)) = firstn n (insert_desc v S).
Proof.
  revert n; induction S as [|x r IH]; intros n; [rewrite firstn_nil; reflexivity|].
  destruct n as [|n']; [reflexivity|]. cbn [firstn insert_desc].
  destruct (t_order x <? t_order v).
  - cbn [firstn]. f_equal. change (x :: firstn n' r) with (firstn (S n') (x :: r)).
    rewrite firstn_firstn. f_equal. lia.
  - destruct (t_order x =? t_order v).
    + change (x :: firstn n' r) with (firstn (S n') (x :: r)). rewrite firstn_firstn, Nat.min_id. reflexivity.
    + cbn [firstn]. f_equal. apply IH.
Qed.

Lemma map_removelast_firstn {A B} (f : A -> B) x l : map f (removelast (x :: l)) = firstn (length l) (map f (x :: l)).
Proof. rewrite removelast_firstn_len, firstn_map. reflexivity. Qed.

(* one arrival that does not merge: sorted insertion, then keep the newest N *)
Lemma abs_step_topn md cs b c lag cs' b' app0 :
  desc cs ->
  (forall pv, In pv cs -> co_order pv < cm_order c -> merges md pv c = false) ->
  abs_step md cs b c lag = (cs', b', app0) ->
  map proj cs' = firstn (length cs + b) (insert_desc (pc c) (map proj cs)).
Proof.
  intros Hd Hnm. unfold abs_step. destruct (split_at (cm_order c) cs) as [hi lo] eqn:Es.
  destruct (split_at_props _ _ _ _ Es) as (Ecs & Hhi & Hlo). subst cs.
  set (lagv := match hi with [] => Some lag | _ => None end).
  assert (Hins : insert_desc (pc c) (map proj (hi ++ lo)) =
                 map proj hi ++ match lo with [] => [pc c] | x :: _ => if co_order x =? cm_order c then map proj lo else pc c :: map proj lo end).
  { rewrite map_app, insert_desc_split.
    - destruct lo; reflexivity.
    - rewrite Forall_forall in *. intros x Hx. apply in_map_iff in Hx. destruct Hx as (y & <- & Hy). apply (Hhi y Hy).
    - destruct lo; [exact I|exact Hlo]. }
  rewrite Hins. rewrite app_length.
  assert (Hlen : length (map proj hi) = length hi) by apply map_length.
  destruct lo as [|pv lo'].
  - destruct b as [|b0]; intros H; injection H as <- <- <-.
    + rewrite app_nil_r. cbn [length]. rewrite !Nat.add_0_r, <- Hlen, firstn_app, Nat.sub_diag, firstn_all. cbn. rewrite app_nil_r. reflexivity.
    + rewrite map_app. cbn [map]. rewrite firstn_all2; [reflexivity|]. rewrite app_length, map_length. cbn. lia.
  - destruct (co_order pv =? cm_order c) eqn:Edup.
    + intros H; injection H as <- <- <-. rewrite firstn_all2; [rewrite map_app; reflexivity|].
      rewrite app_length, !map_length. lia.
    + apply Z.eqb_neq in Edup. rewrite (Hnm pv) by (try (apply in_or_app; right; left; reflexivity); lia).
      destruct b as [|b0]; intros H; injection H as <- <- <-.
      * rewrite map_app. cbn [map]. rewrite Nat.add_0_r.
        replace (length hi + length (pv :: lo'))%nat with (length (map proj hi) + length (pv :: lo'))%nat by (rewrite Hlen; reflexivity).
        rewrite firstn_app_2. f_equal.
        change (pc c :: map proj (removelast (pv :: lo')) = pc c :: firstn (length lo') (map proj (pv :: lo'))).
        f_equal. apply map_removelast_firstn.
      * rewrite map_app. cbn [map]. rewrite firstn_all2; [reflexivity|].
        rewrite app_length, map_length. cbn [length]. rewrite map_length. lia.
Qed.

(* ---------- sequences of arrivals ---------- *)
Definition abs_state := (list coff * nat)%type.
Definition abs_run (md : Z) (n : nat) (l : list (commit * Z)) : abs_state :=
  fold_left (fun (s : abs_state) (cl : commit * Z) =>
               let '(cs', b', _) := abs_step md (fst s) (snd s) (fst cl) (snd cl) in (cs', b')) l ([], n).

Definition sorted_set (l : list commit) : list triple := fold_left (fun acc c => insert_desc (pc c) acc) l [].

(* timestamps do not decrease along the log *)
Definition ts_monotone (l : list commit) : Prop :=
  forall c1 c2, In c1 l -> In c2 l -> cm_order c1 < cm_order c2 -> cm_ts c1 <= cm_ts c2.

Lemma merges_zero_false pv c :
  ts_ok (co_ts pv) -> ts_ok (cm_ts c) -> co_ts pv <= cm_ts c -> merges 0 pv c = false.
Proof.
  unfold ts_ok, merges. intros Hp Hc Hle.
  assert (E1 : sub64 (cm_ts c) (co_ts pv) = cm_ts c - co_ts pv) by (apply wrap64_id; unfold in_i64, two63; lia).
  rewrite E1. change (mul64 0 1000) with 0. destruct (co_order pv <? cm_order c); [|reflexivity].
  cbn [andb]. apply Z.ltb_ge. lia.
Qed.

Section TopN.
  Variable n : nat.
  Variable l : list (commit * Z).            (* arrivals, each with the lag the caller would attach on append *)
  Hypothesis Hmono : ts_monotone (map fst l).
  Hypothesis Hts : Forall (fun c => ts_ok (cm_ts c)) (map fst l).

  Lemma abs_run_inv k :
    (k <= length l)%nat ->
    let s := fold_left (fun (s : abs_state) (cl : commit * Z) =>
               let '(cs', b', _) := abs_step 0 (fst s) (snd s) (fst cl) (snd cl) in (cs', b')) (firstn k l) ([], n) in
    desc (fst s) /\ (length (fst s) + snd s = n)%nat /\
    (forall x, In x (fst s) -> exists c, In c (map fst (firstn k l)) /\ proj x = pc c) /\
    map proj (fst s) = firstn n (sorted_set (map fst (firstn k l))).
  Proof.
    induction k as [|k IH]; intros Hk.
    - cbn. repeat split; [constructor|intros x []|rewrite firstn_nil; reflexivity].
    - assert (Hk' : (k < length l)%nat) by lia.
      destruct (nth_error l k) as [cl|] eqn:En; [|apply nth_error_None in En; lia].
      assert (Ef : firstn (S k) l = firstn k l ++ [cl]).
      { clear - En. revert k En. induction l as [|a l' IHl]; intros k En; [destruct k; discriminate|].
        destruct k as [|k]; [cbn in En; injection En as ->; reflexivity|].
        cbn [nth_error] in En. change (firstn (S (S k)) (a :: l')) with (a :: firstn (S k) l').
        rewrite (IHl k En). reflexivity. }
      rewrite Ef, fold_left_app. cbn [fold_left].
      specialize (IH ltac:(lia)). cbn zeta in IH.
      set (s := fold_left _ (firstn k l) ([], n)) in *.
      destruct IH as (Hd & Hlen & Hsub & Htop).
      destruct (abs_step 0 (fst s) (snd s) (fst cl) (snd cl)) as [[cs' b'] a0] eqn:Est.
      cbn [fst snd].
      destruct (abs_step_shape _ _ _ _ _ _ _ _ Hd Est) as [Hd' Hlen'].
      assert (Hin : In (fst cl) (map fst l)).
      { apply in_map. eapply nth_error_In; exact En. }
      assert (Hsubl : forall c, In c (map fst (firstn k l)) -> In c (map fst l)).
      { intros c Hc. apply in_map_iff in Hc. destruct Hc as (y & <- & Hy). apply in_map. eapply firstn_In_; exact Hy. }
      assert (Hnm : forall pv, In pv (fst s) -> co_order pv < cm_order (fst cl) -> merges 0 pv (fst cl) = false).
      { intros pv Hpv Hlt. destruct (Hsub pv Hpv) as (c0 & Hc0 & Hp).
        unfold proj, pc in Hp. injection Hp as Ho Hor Ht.
        rewrite Forall_forall in Hts.
        apply merges_zero_false; [rewrite Ht; apply Hts, Hsubl, Hc0|apply Hts, Hin|].
        rewrite Ht. apply Hmono; [apply Hsubl, Hc0|exact Hin|lia]. }
      pose proof (abs_step_topn _ _ _ _ _ _ _ _ Hd Hnm Est) as Hstep.
      repeat split; [exact Hd'|lia| |].
      + intros x Hx.
        assert (Hpx : In (proj x) (map proj cs')) by (apply in_map; exact Hx).
        rewrite Hstep in Hpx. apply firstn_In_ in Hpx.
        rewrite map_app. cbn [map].
        assert (Hii : forall v S y, In y (insert_desc v S) -> y = v \/ In y S).
        { clear. intros v S. induction S as [|a S IH]; intros y; cbn [insert_desc].
          - intros [<-|[]]; auto.
          - destruct (t_order a <? t_order v); [intros [<-|H]; auto|].
            destruct (t_order a =? t_order v); [auto|]. intros [<-|H]; [right; left; reflexivity|].
            destruct (IH y H); auto. right; right; assumption. }
        destruct (Hii _ _ _ Hpx) as [E|Hold].
        * exists (fst cl). split; [apply in_or_app; right; left; reflexivity|exact E].
        * apply in_map_iff in Hold. destruct Hold as (y & Ey & Hy). destruct (Hsub y Hy) as (c0 & Hc0 & Hp).
          exists c0. split; [apply in_or_app; left; exact Hc0|congruence].
      + rewrite Hstep, Htop, Hlen, map_app. cbn [map]. unfold sorted_set. rewrite fold_left_app. cbn [fold_left].
        apply firstn_insert_firstn.
  Qed.

  (* window_topN *)
  Theorem window_topn :
    map proj (fst (abs_run 0 n l)) = firstn n (sorted_set (map fst l)).
  Proof.
    pose proof (abs_run_inv (length l) (le_n _)) as H. cbn zeta in H. rewrite firstn_all in H.
    destruct H as (_ & _ & _ & H). exact H.
  Qed.
End TopN.
