(* C02: the offset window holds the newest N commits in log order. *)
From Coq Require Import ZArith List Bool Lia Sorted Permutation.
From Burrow Require Import Int64 Int64Proofs Eval Ring.
Import ListNotations.
Open Scope Z_scope.

(* ---------- shape of a ring ---------- *)
Definition ord_gt (a b : coff) : Prop := co_order b < co_order a.
Definition desc (cs : list coff) : Prop := Sorted ord_gt cs.     (* newest first, strictly decreasing order *)

Definition shape (r : ring) (cs : list coff) (b : nat) : Prop := r = map Some cs ++ repeat None b.
Definition wf (n : nat) (r : ring) : Prop :=
  exists cs b, shape r cs b /\ desc cs /\ (length cs + b = n)%nat.

Lemma desc_strong cs : desc cs -> StronglySorted ord_gt cs.
Proof. apply Sorted_StronglySorted. intros a b c; unfold ord_gt; lia. Qed.

Lemma desc_tail c cs : desc (c :: cs) -> desc cs.
Proof. intros H; inversion H; assumption. Qed.

Lemma desc_head_gt c cs x : desc (c :: cs) -> In x cs -> co_order x < co_order c.
Proof.
  intros H Hx. apply desc_strong in H. inversion H as [|? ? _ Hall]; subst.
  rewrite Forall_forall in Hall. apply Hall; exact Hx.
Qed.

Lemma removelast_app_cons {A} (l : list A) x : removelast (l ++ [x]) = l.
Proof. apply removelast_last. Qed.

Lemma repeat_snoc {A} (x : A) n : repeat x (S n) = repeat x n ++ [x].
Proof. induction n; [reflexivity|]. cbn [repeat app] in *. f_equal. exact IHn. Qed.

Lemma removelast_shape_blank cs b :
  removelast (map Some cs ++ repeat (@None coff) (S b)) = map Some cs ++ repeat None b.
Proof. rewrite repeat_snoc, app_assoc. apply removelast_last. Qed.

Lemma removelast_map_some (cs : list coff) : removelast (map Some cs) = map Some (removelast cs).
Proof.
  induction cs as [|c cs IH]; [reflexivity|]. destruct cs as [|c' cs]; [reflexivity|].
  change (removelast (map Some (c :: c' :: cs))) with (Some c :: removelast (map Some (c' :: cs))).
  rewrite IH. reflexivity.
Qed.

Lemma last_shape cs b :
  last (map Some cs ++ repeat (@None coff) b) None =
  match b with O => (match cs with [] => None | _ => Some (last cs (mkCoff 0 0 0 None)) end) | S _ => None end.
Proof.
  destruct b as [|b].
  - cbn [repeat]. rewrite app_nil_r. induction cs as [|c cs IH]; [reflexivity|].
    destruct cs as [|c' cs]; [reflexivity|].
    change (last (map Some (c :: c' :: cs)) None) with (last (map Some (c' :: cs)) None).
    rewrite IH. reflexivity.
  - rewrite repeat_snoc, app_assoc. apply last_last.
Qed.

(* ---------- the search loop on a well-shaped ring ---------- *)
Definition above (order : Z) (c : coff) : Prop := order < co_order c.

Lemma scan_shape cs b order :
  desc cs ->
  match scan (map Some cs ++ repeat None b) order with
  | PDrop => (exists c, In c cs /\ co_order c = order) \/ (cs = [] /\ b = O)
  | PAppend => False
  | PReplace a x bl =>
      exists hi, a = map Some hi /\ Forall (above order) hi /\
        ((x = None /\ exists b', b = S b' /\ bl = repeat None b' /\ cs = hi) \/
         (exists ol, x = Some ol /\ bl = [] /\ b = O /\ cs = hi ++ [ol] /\ above order ol))
  | PShift a pv bl =>
      exists hi lo, a = map Some hi /\ cs = hi ++ pv :: lo /\ Forall (above order) hi /\
        co_order pv < order /\ bl = map Some lo ++ repeat None b
  end.
Proof.
  induction cs as [|c cs IH]; intros Hd.
  - cbn [map app]. destruct b as [|b]; cbn [repeat scan].
    + right; auto.
    + exists []. split; [reflexivity|]. split; [constructor|]. left. split; [reflexivity|]. exists b. auto.
  - cbn [map app scan].
    destruct (co_order c <? order) eqn:E1.
    { apply Z.ltb_lt in E1. exists [], cs. repeat split; auto; constructor. }
    apply Z.ltb_ge in E1. destruct (co_order c =? order) eqn:E2.
    { apply Z.eqb_eq in E2. left. exists c. split; [left; reflexivity|exact E2]. }
    apply Z.eqb_neq in E2.
    assert (Hc : above order c) by (unfold above; lia).
    specialize (IH (desc_tail _ _ Hd)).
    destruct (map Some cs ++ repeat None b) as [|y below] eqn:Eb.
    + exists []. split; [reflexivity|]. split; [constructor|]. right.
      destruct cs; [|discriminate]. destruct b; [|discriminate]. exists c. auto.
    + destruct (scan (y :: below) order) as [| |a x bl|a pv bl]; cbn [push].
      * destruct IH as [(c' & Hin & Ho)|[-> ->]]; [|discriminate].
        left. exists c'. split; [right; exact Hin|exact Ho].
      * exact IH.
      * destruct IH as (hi & -> & Hall & Hx). exists (c :: hi). split; [reflexivity|].
        split; [constructor; assumption|].
        destruct Hx as [(-> & b' & -> & -> & ->)|(ol & -> & -> & -> & -> & Hol)].
        -- left. split; [reflexivity|]. exists b'. auto.
        -- right. exists ol. auto.
      * destruct IH as (hi & lo & -> & -> & Hall & Hlt & ->).
        exists (c :: hi), lo. repeat split; auto.
Qed.

(* ---------- sortedness helpers ---------- *)
Lemma desc_app_inv l1 l2 : desc (l1 ++ l2) -> desc l1 /\ desc l2.
Proof.
  induction l1 as [|a l1 IH]; cbn [app]; intros H; [split; [constructor|exact H]|].
  inversion H as [|? ? Hs Hh]; subst. destruct (IH Hs) as [H1 H2]. split; [|exact H2].
  constructor; [exact H1|]. destruct l1; [constructor|]. inversion Hh; subst. constructor; assumption.
Qed.

Lemma desc_app l1 l2 :
  desc l1 -> desc l2 -> (forall a b, In a l1 -> In b l2 -> co_order b < co_order a) -> desc (l1 ++ l2).
Proof.
  induction l1 as [|a l1 IH]; cbn [app]; intros H1 H2 Hc; [exact H2|].
  inversion H1 as [|? ? Hs Hh]; subst. constructor.
  - apply IH; auto. intros x y Hx Hy. apply Hc; [right; exact Hx|exact Hy].
  - destruct l1 as [|a' l1]; cbn [app].
    + destruct l2 as [|b l2]; constructor. apply Hc; left; reflexivity.
    + inversion Hh; subst. constructor; assumption.
Qed.

Lemma desc_removelast cs : desc cs -> desc (removelast cs).
Proof.
  intros H. destruct cs as [|c cs]; [exact H|].
  destruct (exists_last (l := c :: cs) ltac:(discriminate)) as (l' & x & E). rewrite E in *.
  rewrite removelast_last. apply (desc_app_inv _ _ H).
Qed.

Lemma desc_all_gt hi x lo : desc (hi ++ x :: lo) -> Forall (fun c => co_order x < co_order c) hi.
Proof.
  induction hi as [|a hi IH]; cbn [app]; intros H; [constructor|].
  constructor.
  - eapply desc_head_gt; [exact H|]. apply in_or_app. right. left. reflexivity.
  - apply IH. eapply desc_tail; exact H.
Qed.

Lemma desc_all_lt hi x lo : desc (hi ++ x :: lo) -> Forall (fun c => co_order c < co_order x) lo.
Proof.
  intros H. apply desc_app_inv in H. destruct H as [_ H]. rewrite Forall_forall. intros y Hy.
  eapply desc_head_gt; eauto.
Qed.

(* inserting v between hi (all above) and lo (all below) keeps the order *)
Lemma desc_insert hi v lo :
  desc (hi ++ lo) -> Forall (fun c => co_order v < co_order c) hi -> Forall (fun c => co_order c < co_order v) lo ->
  desc (hi ++ v :: lo).
Proof.
  intros H Hhi Hlo. destruct (desc_app_inv _ _ H) as [H1 H2]. rewrite Forall_forall in Hhi, Hlo.
  apply desc_app; [exact H1| |].
  - constructor; [exact H2|]. destruct lo; constructor. apply Hlo. left; reflexivity.
  - intros a b Ha [<-|Hb]; [apply Hhi; exact Ha|].
    specialize (Hhi a Ha). specialize (Hlo b Hb). lia.
Qed.

(* ---------- abstract description of one arrival ---------- *)
Definition fresh (c : commit) (lag : option Z) : coff := mkCoff (cm_offset c) (cm_order c) (cm_ts c) lag.
Definition merged (pv : coff) (c : commit) (lag : option Z) : coff := mkCoff (cm_offset c) (cm_order c) (co_ts pv) lag.

(* (hi, lo): hi = the stored commits later in the log than [order] *)
Fixpoint split_at (order : Z) (cs : list coff) : list coff * list coff :=
  match cs with
  | [] => ([], [])
  | c :: r => if order <? co_order c then let (hi, lo) := split_at order r in (c :: hi, lo) else ([], cs)
  end.

Definition abs_step (md : Z) (cs : list coff) (b : nat) (c : commit) (lag_app : Z) : list coff * nat * bool :=
  let (hi, lo) := split_at (cm_order c) cs in
  let lag := match hi with [] => Some lag_app | _ => None end in
  let app := match hi with [] => true | _ => false end in
  match lo with
  | pv :: lo' =>
      if co_order pv =? cm_order c then (cs, b, false)                     (* already stored *)
      else if merges md pv c then (hi ++ merged pv c lag :: lo', b, app)   (* replaces its predecessor *)
      else match b with
           | S b' => (hi ++ fresh c lag :: lo, b', app)                    (* takes a free slot *)
           | O => (hi ++ fresh c lag :: removelast lo, O, app)             (* pushes the oldest out *)
           end
  | [] =>
      match b with
      | S b' => (hi ++ [fresh c lag], b', app)
      | O => (cs, O, false)                                                (* older than a full window *)
      end
  end.

Lemma split_at_spec order hi lo :
  Forall (above order) hi -> match lo with [] => True | x :: _ => co_order x <= order end ->
  split_at order (hi ++ lo) = (hi, lo).
Proof.
  intros Hhi Hlo. induction Hhi as [|c hi Hc _ IH]; cbn [app split_at].
  - destruct lo as [|x lo]; [reflexivity|]. cbn [split_at].
    destruct (order <? co_order x) eqn:E; [apply Z.ltb_lt in E; lia|reflexivity].
  - unfold above in Hc. apply Z.ltb_lt in Hc. rewrite Hc, IH. reflexivity.
Qed.

Lemma split_at_head_le order c cs : co_order c <= order -> split_at order (c :: cs) = ([], c :: cs).
Proof. intros H. cbn [split_at]. destruct (order <? co_order c) eqn:E; [apply Z.ltb_lt in E; lia|reflexivity]. Qed.

Lemma split_at_all_above order cs : Forall (above order) cs -> split_at order cs = (cs, []).
Proof. intros H. rewrite <- (app_nil_r cs) at 1. apply split_at_spec; auto. Qed.

Lemma desc_last_le c cs : desc (c :: cs) -> co_order (last (c :: cs) (mkCoff 0 0 0 None)) <= co_order c.
Proof.
  intros H. destruct cs as [|c' cs]; [cbn; lia|].
  assert (In (last (c :: c' :: cs) (mkCoff 0 0 0 None)) (c' :: cs)).
  { change (last (c :: c' :: cs) (mkCoff 0 0 0 None)) with (last (c' :: cs) (mkCoff 0 0 0 None)).
    clear. revert c'. induction cs as [|x cs IH]; intros c'; [left; reflexivity|].
    right. apply (IH x). }
  pose proof (desc_head_gt _ _ _ H H0). lia.
Qed.

Lemma desc_all_ge_last cs x : desc cs -> In x cs -> co_order (last cs (mkCoff 0 0 0 None)) <= co_order x.
Proof.
  induction cs as [|c cs IH]; intros Hd Hin; [destruct Hin|]. destruct Hin as [<-|Hin].
  - apply desc_last_le; exact Hd.
  - destruct cs as [|c' cs]; [destruct Hin|].
    change (last (c :: c' :: cs) (mkCoff 0 0 0 None)) with (last (c' :: cs) (mkCoff 0 0 0 None)).
    apply IH; [eapply desc_tail; exact Hd|exact Hin].
Qed.

Definition d0 : coff := mkCoff 0 0 0 None.

Lemma find_place_cons nw cs1 b order :
  find_place (map Some (nw :: cs1) ++ repeat None b) order =
  if (match b with O => order <=? co_order (last (nw :: cs1) d0) | S _ => false end) then PDrop
  else if order <=? co_order nw then scan (map Some (nw :: cs1) ++ repeat None b) order else PAppend.
Proof.
  unfold find_place. cbn [map app].
  change (Some nw :: map Some cs1 ++ repeat None b) with (map Some (nw :: cs1) ++ repeat None b).
  rewrite last_shape. destruct b; reflexivity.
Qed.

(* full window, not later than the oldest stored commit: nothing changes *)
Lemma abs_step_old md cs c lag :
  desc cs -> cs <> [] -> cm_order c <= co_order (last cs d0) -> abs_step md cs O c lag = (cs, O, false).
Proof.
  intros Hd Hne Hle. unfold abs_step. set (order := cm_order c) in *.
  destruct (Z_lt_dec order (co_order (last cs d0))) as [Hlt|Hge].
  - rewrite split_at_all_above; [reflexivity|].
    rewrite Forall_forall. intros y Hy. unfold above.
    pose proof (desc_all_ge_last cs y Hd Hy). unfold d0 in *. lia.
  - assert (Heq : order = co_order (last cs d0)) by lia.
    destruct (exists_last Hne) as (l' & ol & El). rewrite El in *. rewrite last_last in Heq.
    rewrite split_at_spec; [| |lia].
    + rewrite <- Heq, Z.eqb_refl. reflexivity.
    + eapply Forall_impl; [|apply (desc_all_gt l' ol [] Hd)]. intros a Ha; unfold above; cbn beta in Ha; lia.
Qed.

(* later than the newest stored commit: append *)
Lemma store_append_abs md nw cs1 b c lag :
  co_order nw < cm_order c ->
  (store md (map Some (nw :: cs1) ++ repeat None b) PAppend c (Some lag), true) =
  (let '(cs', b', app) := abs_step md (nw :: cs1) b c lag in (map Some cs' ++ repeat None b', app)).
Proof.
  intros Hlt. unfold abs_step.
  rewrite split_at_head_le by lia.
  cbn [store hd map app].
  replace (co_order nw =? cm_order c) with false by (symmetry; apply Z.eqb_neq; lia).
  fold (merged nw c (Some lag)). fold (fresh c (Some lag)).
  destruct (merges md nw c); [reflexivity|].
  destruct b as [|b'].
  - cbn [repeat]. rewrite !app_nil_r.
    change (Some nw :: map Some cs1) with (map Some (nw :: cs1)). rewrite removelast_map_some. reflexivity.
  - change (Some nw :: map Some cs1 ++ repeat None (S b')) with (map Some (nw :: cs1) ++ repeat None (S b')).
    rewrite removelast_shape_blank. reflexivity.
Qed.

Lemma merges_false_le md pv c : cm_order c <= co_order pv -> merges md pv c = false.
Proof. intros H. unfold merges. destruct (co_order pv <? cm_order c) eqn:E; [apply Z.ltb_lt in E; lia|reflexivity]. Qed.

(* not later than the newest stored commit (and, on a full window, later than the oldest): the search loop *)
Lemma scan_store_abs md cs nw b c lag :
  desc cs -> hd_error cs = Some nw -> cm_order c <= co_order nw ->
  (b = O -> co_order (last cs d0) < cm_order c) ->
  match scan (map Some cs ++ repeat None b) (cm_order c) with
  | PDrop => (map Some cs ++ repeat None b, false)
  | PAppend => (store md (map Some cs ++ repeat None b) PAppend c (Some lag), true)
  | PReplace a x bl => (store md (map Some cs ++ repeat None b) (PReplace a x bl) c None, false)
  | PShift a pv bl => (store md (map Some cs ++ repeat None b) (PShift a pv bl) c None, false)
  end =
  (let '(cs', b', app) := abs_step md cs b c lag in (map Some cs' ++ repeat None b', app)).
Proof.
  intros Hd Hhd Hnw Hold. set (order := cm_order c) in *.
  pose proof (scan_shape cs b order Hd) as Hsc.
  destruct (scan (map Some cs ++ repeat None b) order) as [| |a x bl|a pv bl].
  - (* duplicate *)
    destruct Hsc as [(x & Hin & Hx)|[Hcs _]]; [|subst cs; discriminate].
    destruct (in_split _ _ Hin) as (hi & lo & E).
    unfold abs_step. fold order. rewrite E in Hd. rewrite E at 2.
    rewrite split_at_spec; [| |lia].
    + rewrite Hx, Z.eqb_refl. reflexivity.
    + eapply Forall_impl; [|apply (desc_all_gt hi x lo Hd)]. intros y Hy; unfold above; cbn beta in Hy; lia.
  - contradiction.
  - destruct Hsc as (hi & -> & Hall & [(-> & b' & -> & -> & Ecs)|(ol & -> & -> & -> & Ecs & Hol)]).
    + (* fills the free slot just below the stored commits *)
      unfold abs_step. fold order. rewrite split_at_all_above by (rewrite Ecs; exact Hall).
      subst hi.
      assert (Hst : store md (map Some cs ++ repeat None (S b')) (PReplace (map Some cs) None (repeat None b')) c None =
                    map Some cs ++ Some (fresh c None) :: repeat None b').
      { unfold store. fold (fresh c None). destruct b' as [|b'']; cbn [repeat]; [|reflexivity].
        destruct cs as [|x cs1]; [discriminate|]. injection Hhd as ->.
        cbn [map app hd]. rewrite merges_false_le by exact Hnw. reflexivity. }
      rewrite Hst. destruct cs as [|x cs1]; [discriminate|].
      rewrite map_app, <- app_assoc. reflexivity.
    + (* would replace an oldest commit that is later in the log: excluded by the full-window test *)
      exfalso. specialize (Hold eq_refl). rewrite Ecs, last_last in Hold. unfold above in Hol. lia.
  - destruct Hsc as (hi & lo & -> & Ecs & Hall & Hlt & ->).
    assert (Hhi : hi <> []).
    { intros ->. cbn [app] in Ecs. rewrite Ecs in Hhd. injection Hhd as <-. lia. }
    unfold abs_step. fold order. rewrite Ecs at 2.
    rewrite split_at_spec by (auto; lia).
    replace (co_order pv =? order) with false by (symmetry; apply Z.eqb_neq; lia).
    destruct hi as [|h0 hi']; [congruence|].
    unfold store. fold (fresh c None). fold (merged pv c None).
    destruct (merges md pv c).
    + rewrite map_app. cbn [map]. rewrite <- app_assoc. reflexivity.
    + destruct b as [|b'].
      * cbn [repeat]. rewrite !app_nil_r.
        change (Some pv :: map Some lo) with (map Some (pv :: lo)). rewrite removelast_map_some.
        rewrite map_app. cbn [map]. reflexivity.
      * change (Some pv :: map Some lo ++ repeat None (S b')) with (map Some (pv :: lo) ++ repeat None (S b')).
        rewrite removelast_shape_blank, map_app. cbn [map]. rewrite <- app_assoc. reflexivity.
Qed.

(* The ring operations of the code, on a ring of the documented shape, do exactly [abs_step]. *)
Theorem ring_step_abs md cs b c lag :
  desc cs ->
  ring_step md (map Some cs ++ repeat None b) c lag =
  (let '(cs', b', app) := abs_step md cs b c lag in (map Some cs' ++ repeat None b', app)).
Proof.
  intros Hd. unfold ring_step.
  destruct cs as [|nw cs1].
  { (* no commit stored yet *)
    unfold find_place. cbn [map app]. unfold abs_step. cbn [split_at]. destruct b as [|b']; cbn [repeat]; [reflexivity|].
    cbn [store hd]. change (None :: repeat None b') with (map Some (@nil coff) ++ repeat None (S b')).
    rewrite removelast_shape_blank. reflexivity. }
  rewrite find_place_cons.
  destruct (match b with O => cm_order c <=? co_order (last (nw :: cs1) d0) | S _ => false end) eqn:Eold.
  { destruct b; [|discriminate]. apply Z.leb_le in Eold.
    rewrite abs_step_old; [reflexivity|exact Hd|discriminate|exact Eold]. }
  destruct (cm_order c <=? co_order nw) eqn:Enw.
  - apply Z.leb_le in Enw.
    assert (Hold : b = O -> co_order (last (nw :: cs1) d0) < cm_order c).
    { intros ->. apply Z.leb_gt in Eold. exact Eold. }
    pose proof (scan_store_abs md (nw :: cs1) nw b c lag Hd eq_refl Enw Hold) as H.
    destruct (scan (map Some (nw :: cs1) ++ repeat None b) (cm_order c)); exact H.
  - apply Z.leb_gt in Enw. apply store_append_abs; exact Enw.
Qed.

(* ---------- consequences, stated on the abstract step ---------- *)
Lemma split_at_props order cs hi lo :
  split_at order cs = (hi, lo) ->
  cs = hi ++ lo /\ Forall (above order) hi /\ match lo with [] => True | x :: _ => co_order x <= order end.
Proof.
  revert hi lo; induction cs as [|c cs IH]; intros hi lo; cbn [split_at].
  - intros H; injection H as <- <-. repeat split; constructor.
  - destruct (order <? co_order c) eqn:E.
    + destruct (split_at order cs) as [hi' lo'] eqn:Es. intros H; injection H as <- <-.
      destruct (IH _ _ eq_refl) as (-> & Hh & Hl). repeat split; auto. constructor; [apply Z.ltb_lt; exact E|exact Hh].
    + intros H; injection H as <- <-. apply Z.ltb_ge in E. repeat split; auto; constructor.
Qed.

Lemma desc_remove_mid hi x lo : desc (hi ++ x :: lo) -> desc (hi ++ lo).
Proof.
  intros H. pose proof (desc_all_gt _ _ _ H) as Hhi. pose proof (desc_all_lt _ _ _ H) as Hlo.
  destruct (desc_app_inv _ _ H) as [H1 H2]. apply desc_app; [exact H1|eapply desc_tail; exact H2|].
  rewrite Forall_forall in Hhi, Hlo. intros a b Ha Hb. specialize (Hhi a Ha). specialize (Hlo b Hb). lia.
Qed.

Lemma removelast_app_cons2 {A} (l : list A) x (m : list A) : m <> [] -> removelast (l ++ x :: m) = l ++ x :: removelast m.
Proof.
  intros Hm. rewrite removelast_app by discriminate. f_equal. cbn [removelast]. destruct m; [congruence|reflexivity].
Qed.

(* window_shape: the abstract step keeps the commits strictly ordered and the number of slots constant *)
Theorem abs_step_shape md cs b c lag cs' b' app :
  desc cs -> abs_step md cs b c lag = (cs', b', app) ->
  desc cs' /\ (length cs' + b' = length cs + b)%nat.
Proof.
  intros Hd. unfold abs_step. destruct (split_at (cm_order c) cs) as [hi lo] eqn:Es.
  destruct (split_at_props _ _ _ _ Es) as (Ecs & Hhi & Hlo). subst cs.
  set (lagv := match hi with [] => Some lag | _ => None end).
  assert (Hfr : forall (v : coff), co_order v = cm_order c -> Forall (fun x => co_order v < co_order x) hi).
  { intros v Hv. eapply Forall_impl; [|exact Hhi]. intros a Ha; unfold above in Ha; lia. }
  destruct lo as [|pv lo'].
  - destruct b as [|b0]; intros H; injection H as <- <- <-; [split; [exact Hd|reflexivity]|].
    split; [|rewrite !app_length; cbn; lia].
    rewrite app_nil_r in Hd. apply desc_insert; [rewrite app_nil_r; exact Hd|apply Hfr; reflexivity|constructor].
  - destruct (co_order pv =? cm_order c) eqn:Edup; [intros H; injection H as <- <- <-; split; [exact Hd|reflexivity]|].
    apply Z.eqb_neq in Edup. assert (Hpv : co_order pv < cm_order c) by lia.
    pose proof (desc_all_lt _ _ _ Hd) as Hlo'.
    assert (Hins : forall v, co_order v = cm_order c -> desc (hi ++ v :: pv :: lo')).
    { intros v Hv. apply desc_insert; [exact Hd|apply Hfr; exact Hv|].
      constructor; [lia|]. eapply Forall_impl; [|exact Hlo']. intros a Ha; cbn beta in Ha; lia. }
    destruct (merges md pv c).
    + intros H; injection H as <- <- <-. split; [|rewrite !app_length; cbn; lia].
      apply desc_insert; [eapply desc_remove_mid; exact Hd|apply Hfr; reflexivity|].
      eapply Forall_impl; [|exact Hlo']. intros a Ha; cbn beta in Ha; cbn; lia.
    + destruct b as [|b0]; intros H; injection H as <- <- <-.
      * split.
        -- change (desc (hi ++ fresh c lagv :: removelast (pv :: lo'))).
           rewrite <- removelast_app_cons2 by discriminate. apply desc_removelast. apply Hins; reflexivity.
        -- change (length (hi ++ fresh c lagv :: removelast (pv :: lo')) + 0 = length (hi ++ pv :: lo') + 0)%nat.
           assert (length (removelast (pv :: lo')) = length lo').
           { clear. revert pv. induction lo' as [|x l IH]; intros pv; [reflexivity|].
             change (removelast (pv :: x :: l)) with (pv :: removelast (x :: l)). cbn [length]. rewrite IH. reflexivity. }
           rewrite !app_length. cbn [length]. lia.
      * split; [apply Hins; reflexivity|rewrite !app_length; cbn; lia].
Qed.

Definition top (cs : list coff) : option Z := match cs with [] => None | c :: _ => Some (co_order c) end.

(* window_newest_last: the newest stored commit is the latest in the log of everything that arrived *)
Theorem abs_step_top md cs b c lag cs' b' app :
  desc cs -> (1 <= length cs + b)%nat -> abs_step md cs b c lag = (cs', b', app) ->
  top cs' = Some (match top cs with None => cm_order c | Some o => Z.max o (cm_order c) end).
Proof.
  intros Hd Hn. unfold abs_step. destruct (split_at (cm_order c) cs) as [hi lo] eqn:Es.
  destruct (split_at_props _ _ _ _ Es) as (Ecs & Hhi & Hlo). subst cs.
  destruct hi as [|h hi'].
  - cbn [List.app] in *. destruct lo as [|pv lo'].
    + destruct b as [|b0]; [cbn in Hn; lia|]. intros H; injection H as <- <- <-. reflexivity.
    + destruct (co_order pv =? cm_order c) eqn:Edup.
      * apply Z.eqb_eq in Edup. intros H; injection H as <- <- <-. cbn. f_equal. lia.
      * apply Z.eqb_neq in Edup. destruct (merges md pv c); [|destruct b]; intros H; injection H as <- <- <-; cbn; f_equal; lia.
  - inversion Hhi as [|? ? Hh _]; subst. unfold above in Hh.
    assert (E : forall l, top ((h :: hi') ++ l) = Some (co_order h)) by reflexivity.
    destruct lo as [|pv lo']; [destruct b|destruct (co_order pv =? cm_order c); [|destruct (merges md pv c); [|destruct b]]];
      intros H; injection H as <- <- <-; cbn [top List.app]; f_equal; lia.
Qed.

(* merge_spec: a commit whose predecessor in the log is stored and closer than the minimum distance
   replaces that predecessor's offset and log position, keeps its timestamp, and takes no slot *)
Theorem abs_step_merge md cs b c lag hi pv lo' :
  split_at (cm_order c) cs = (hi, pv :: lo') -> co_order pv < cm_order c -> merges md pv c = true ->
  abs_step md cs b c lag =
  (hi ++ merged pv c (match hi with [] => Some lag | _ => None end) :: lo', b, match hi with [] => true | _ => false end).
Proof.
  intros Es Hlt Hm. unfold abs_step. rewrite Es.
  replace (co_order pv =? cm_order c) with false by (symmetry; apply Z.eqb_neq; lia). rewrite Hm. reflexivity.
Qed.

(* ... and otherwise it takes a slot of its own (pushing the oldest out of a full window) *)
Theorem abs_step_no_merge md cs b c lag hi lo :
  split_at (cm_order c) cs = (hi, lo) ->
  match lo with [] => True | pv :: _ => co_order pv < cm_order c /\ merges md pv c = false end ->
  abs_step md cs b c lag =
  match b, lo with
  | O, [] => (cs, O, false)
  | O, _ => (hi ++ fresh c (match hi with [] => Some lag | _ => None end) :: removelast lo, O, match hi with [] => true | _ => false end)
  | S b', _ => (hi ++ fresh c (match hi with [] => Some lag | _ => None end) :: lo, b', match hi with [] => true | _ => false end)
  end.
Proof.
  intros Es Hlo. unfold abs_step. rewrite Es. destruct lo as [|pv lo'].
  - destruct b; reflexivity.
  - destruct Hlo as [Hlt Hm].
    replace (co_order pv =? cm_order c) with false by (symmetry; apply Z.eqb_neq; lia). rewrite Hm.
    destruct b; reflexivity.
Qed.

(* when the merge test fires, in mathematical terms (no wrap-around for sane timestamps) *)
Definition ts_ok (t : Z) : Prop := - 4611686018427387904 < t < 4611686018427387904.   (* |t| < 2^62 *)
Definition md_ok (md : Z) : Prop := 0 <= md < 4611686018427387.                         (* md*1000 < 2^62 *)

Lemma merges_spec md pv c :
  ts_ok (co_ts pv) -> ts_ok (cm_ts c) -> md_ok md ->
  (merges md pv c = true <-> co_order pv < cm_order c /\ cm_ts c - co_ts pv < 1000 * md).
Proof.
  unfold ts_ok, md_ok, merges. intros Hp Hc Hm.
  rewrite andb_true_iff, !Z.ltb_lt.
  assert (E1 : sub64 (cm_ts c) (co_ts pv) = cm_ts c - co_ts pv) by (apply wrap64_id; unfold in_i64, two63; lia).
  assert (E2 : mul64 md 1000 = md * 1000) by (apply wrap64_id; unfold in_i64, two63; lia).
  rewrite E1, E2. lia.
Qed.

(* ---------- top-N by log position when nothing merges ---------- *)
Definition triple := (Z * Z * Z)%type.                       (* offset, log position, timestamp *)
Definition proj (c : coff) : triple := (co_offset c, co_order c, co_ts c).
Definition pc (c : commit) : triple := (cm_offset c, cm_order c, cm_ts c).
Definition t_order (t : triple) : Z := snd (fst t).

Fixpoint insert_desc (v : triple) (l : list triple) : list triple :=
  match l with
  | [] => [v]
  | x :: r => if t_order x <? t_order v then v :: l
              else if t_order x =? t_order v then l
              else x :: insert_desc v r
  end.

Lemma insert_desc_split v hi lo :
  Forall (fun x => t_order v < t_order x) hi ->
  match lo with [] => True | x :: _ => t_order x <= t_order v end ->
  insert_desc v (hi ++ lo) =
  hi ++ match lo with [] => [v] | x :: _ => if t_order x =? t_order v then lo else v :: lo end.
Proof.
  intros Hhi Hlo. induction Hhi as [|h hi Hh _ IH]; cbn [List.app insert_desc].
  - destruct lo as [|x lo]; [reflexivity|]. cbn [insert_desc].
    destruct (t_order x <? t_order v) eqn:E1.
    + apply Z.ltb_lt in E1. replace (t_order x =? t_order v) with false by (symmetry; apply Z.eqb_neq; lia). reflexivity.
    + apply Z.ltb_ge in E1. assert (t_order x = t_order v) by lia. rewrite H, Z.eqb_refl. reflexivity.
  - replace (t_order h <? t_order v) with false by (symmetry; apply Z.ltb_ge; lia).
    replace (t_order h =? t_order v) with false by (symmetry; apply Z.eqb_neq; lia).
    rewrite IH. reflexivity.
Qed.

Lemma firstn_insert_firstn n v S : firstn n (insert_desc v (firstn n S)) = firstn n (insert_desc v S).
Proof.
  revert n; induction S as [|x r IH]; intros n; [rewrite firstn_nil; reflexivity|].
  destruct n as [|n']; [reflexivity|]. cbn [firstn insert_desc].
  destruct (t_order x <? t_order v).
  - cbn [firstn]. f_equal. change (x :: firstn n' r) with (firstn (S n') (x :: r)).
    rewrite firstn_firstn. f_equal. lia.
  - destruct (t_order x =? t_order v).
    + change (x :: firstn n' r) with (firstn (S n') (x :: r)). rewrite firstn_firstn, Nat.min_id. reflexivity.
    + cbn [firstn]. f_equal. apply IH.
Qed.

Lemma map_removelast_firstn {A B} (f : A -> B) x l : map f (removelast (x :: l)) = firstn (length l) (map f (x :: l)).
Proof. rewrite removelast_firstn_len, firstn_map. reflexivity. Qed.

(* one arrival that does not merge: sorted insertion, then keep the newest N *)
Lemma abs_step_topn md cs b c lag cs' b' app0 :
  desc cs ->
  (forall pv, In pv cs -> co_order pv < cm_order c -> merges md pv c = false) ->
  abs_step md cs b c lag = (cs', b', app0) ->
  map proj cs' = firstn (length cs + b) (insert_desc (pc c) (map proj cs)).
Proof.
  intros Hd Hnm. unfold abs_step. destruct (split_at (cm_order c) cs) as [hi lo] eqn:Es.
  destruct (split_at_props _ _ _ _ Es) as (Ecs & Hhi & Hlo). subst cs.
  set (lagv := match hi with [] => Some lag | _ => None end).
  assert (Hins : insert_desc (pc c) (map proj (hi ++ lo)) =
                 map proj hi ++ match lo with [] => [pc c] | x :: _ => if co_order x =? cm_order c then map proj lo else pc c :: map proj lo end).
  { rewrite map_app, insert_desc_split.
    - destruct lo; reflexivity.
    - rewrite Forall_forall in *. intros x Hx. apply in_map_iff in Hx. destruct Hx as (y & <- & Hy). apply (Hhi y Hy).
    - destruct lo; [exact I|exact Hlo]. }
  rewrite Hins. rewrite app_length.
  assert (Hlen : length (map proj hi) = length hi) by apply map_length.
  destruct lo as [|pv lo'].
  - destruct b as [|b0]; intros H; injection H as <- <- <-.
    + rewrite app_nil_r. cbn [length]. rewrite !Nat.add_0_r, <- Hlen, firstn_app, Nat.sub_diag, firstn_all. cbn. rewrite app_nil_r. reflexivity.
    + rewrite map_app. cbn [map]. rewrite firstn_all2; [reflexivity|]. rewrite app_length, map_length. cbn. lia.
  - destruct (co_order pv =? cm_order c) eqn:Edup.
    + intros H; injection H as <- <- <-. rewrite firstn_all2; [rewrite map_app; reflexivity|].
      rewrite app_length, !map_length. lia.
    + apply Z.eqb_neq in Edup. rewrite (Hnm pv) by (try (apply in_or_app; right; left; reflexivity); lia).
      destruct b as [|b0]; intros H; injection H as <- <- <-.
      * rewrite map_app. cbn [map]. rewrite Nat.add_0_r.
        replace (length hi + length (pv :: lo'))%nat with (length (map proj hi) + length (pv :: lo'))%nat by (rewrite Hlen; reflexivity).
        rewrite firstn_app_2. f_equal.
        change (pc c :: map proj (removelast (pv :: lo')) = pc c :: firstn (length lo') (map proj (pv :: lo'))).
        f_equal. apply map_removelast_firstn.
      * rewrite map_app. cbn [map]. rewrite firstn_all2; [reflexivity|].
        rewrite app_length, map_length. cbn [length]. rewrite map_length. lia.
Qed.

(* ---------- sequences of arrivals ---------- *)
(* every commit reaching a partition, with the lag the caller would attach if it is appended *)
Definition ring_run (md : Z) (n : nat) (l : list (commit * Z)) : ring :=
  fold_left (fun r cl => fst (ring_step md r (fst cl) (snd cl))) l (new_ring n).

Definition abs_state := (list coff * nat)%type.
Definition abs_next (md : Z) (s : abs_state) (cl : commit * Z) : abs_state :=
  let '(cs', b', _) := abs_step md (fst s) (snd s) (fst cl) (snd cl) in (cs', b').
Definition abs_run (md : Z) (n : nat) (l : list (commit * Z)) : abs_state := fold_left (abs_next md) l ([], n).
Definition conc (s : abs_state) : ring := map Some (fst s) ++ repeat None (snd s).

Lemma ring_run_snoc md n l cl :
  ring_run md n (l ++ [cl]) = fst (ring_step md (ring_run md n l) (fst cl) (snd cl)).
Proof. unfold ring_run. rewrite fold_left_app. reflexivity. Qed.

Lemma abs_run_snoc md n l cl : abs_run md n (l ++ [cl]) = abs_next md (abs_run md n l) cl.
Proof. unfold abs_run. rewrite fold_left_app. reflexivity. Qed.

Lemma abs_next_shape md s cl :
  desc (fst s) -> desc (fst (abs_next md s cl)) /\
  (length (fst (abs_next md s cl)) + snd (abs_next md s cl) = length (fst s) + snd s)%nat.
Proof.
  intros Hd. unfold abs_next. destruct (abs_step md (fst s) (snd s) (fst cl) (snd cl)) as [[cs' b'] a0] eqn:E.
  cbn [fst snd]. eapply abs_step_shape; eauto.
Qed.

(* the ring reached by any sequence of arrivals has the documented shape, and is what the abstract run says *)
Theorem run_refines md n l :
  desc (fst (abs_run md n l)) /\ (length (fst (abs_run md n l)) + snd (abs_run md n l) = n)%nat /\
  ring_run md n l = conc (abs_run md n l).
Proof.
  induction l as [|cl l IH] using rev_ind.
  - cbn. repeat split; constructor.
  - destruct IH as (Hd & Hlen & Heq). rewrite ring_run_snoc, abs_run_snoc, Heq.
    destruct (abs_next_shape md (abs_run md n l) cl Hd) as [Hd' Hlen'].
    repeat split; [exact Hd'|lia|].
    unfold conc at 1. rewrite (ring_step_abs md _ _ _ _ Hd). unfold abs_next, conc.
    destruct (abs_step md (fst (abs_run md n l)) (snd (abs_run md n l)) (fst cl) (snd cl)) as [[cs' b'] a0].
    reflexivity.
Qed.

(* ---------- read-out side: oldest first, blanks in front ---------- *)
Definition window (b : nat) (cs : list coff) : list (option coff) := repeat None b ++ map Some cs.
Definition asc (cs : list coff) : Prop := StronglySorted Z.lt (map co_order cs).

Lemma rev_repeat {A} (x : A) k : rev (repeat x k) = repeat x k.
Proof. induction k as [|k IH]; [reflexivity|]. rewrite repeat_snoc at 2. cbn [repeat rev]. rewrite IH. reflexivity. Qed.

Lemma readout_conc cs b : readout (map Some cs ++ repeat None b) = window b (rev cs).
Proof. unfold readout, window. rewrite rev_app_distr, rev_repeat, map_rev. reflexivity. Qed.

Lemma readout_window_inv r b cs : readout r = window b cs -> r = map Some (rev cs) ++ repeat None b.
Proof.
  unfold readout, window. intros H. rewrite <- (rev_involutive r), H, rev_app_distr, rev_repeat, map_rev. reflexivity.
Qed.

Lemma SS_snoc l a : StronglySorted Z.lt l -> Forall (fun x => x < a) l -> StronglySorted Z.lt (l ++ [a]).
Proof.
  induction l as [|x l IH]; cbn [app]; intros Hs Ha; [repeat constructor|].
  inversion Hs as [|? ? Hs' Hx]; subst. inversion Ha as [|? ? Hxa Ha']; subst.
  constructor; [apply IH; assumption|]. apply Forall_app. split; [exact Hx|repeat constructor; exact Hxa].
Qed.

Lemma desc_asc_rev cs : desc cs -> asc (rev cs).
Proof.
  unfold asc. induction cs as [|c cs IH]; intros Hd; [constructor|].
  cbn [rev]. rewrite map_app. cbn [map]. apply SS_snoc; [apply IH; eapply desc_tail; exact Hd|].
  rewrite Forall_forall. intros o Ho. apply in_map_iff in Ho. destruct Ho as (x & <- & Hx).
  apply in_rev in Hx. eapply desc_head_gt; eauto.
Qed.

Lemma SS_app_inv l1 l2 : StronglySorted Z.lt (l1 ++ l2) ->
  StronglySorted Z.lt l1 /\ StronglySorted Z.lt l2 /\ (forall a b, In a l1 -> In b l2 -> a < b).
Proof.
  induction l1 as [|x l1 IH]; cbn [app]; intros H.
  - repeat split; [constructor|exact H|intros a b []].
  - inversion H as [|? ? Hs Hx]; subst. destruct (IH Hs) as (H1 & H2 & H3). rewrite Forall_forall in Hx.
    repeat split; [constructor; [exact H1|]|exact H2|].
    + rewrite Forall_forall. intros y Hy. apply Hx, in_or_app. left; exact Hy.
    + intros a b [<-|Ha] Hb; [apply Hx, in_or_app; right; exact Hb|apply H3; assumption].
Qed.

Lemma asc_desc_rev cs : asc cs -> desc (rev cs).
Proof.
  unfold asc. induction cs as [|c cs IH]; intros Ha; [constructor|].
  cbn [map] in Ha. inversion Ha as [|? ? Hs Hc]; subst. cbn [rev].
  apply desc_app; [apply IH; exact Hs|repeat constructor|].
  intros a b Hin [<-|[]]. apply in_rev in Hin. rewrite Forall_forall in Hc.
  apply Hc. apply in_map. exact Hin.
Qed.

(* window_shape, for every ring size, minimum distance and sequence of arrivals *)
Theorem run_window_shape md n l :
  exists b cs, readout (ring_run md n l) = window b cs /\ (b + length cs = n)%nat /\ asc cs.
Proof.
  destruct (run_refines md n l) as (Hd & Hlen & Heq).
  exists (snd (abs_run md n l)), (rev (fst (abs_run md n l))).
  rewrite Heq. unfold conc. rewrite readout_conc, rev_length. repeat split; [lia|apply desc_asc_rev; exact Hd].
Qed.

(* the invariant itself, one step: a ring with a well-shaped read-out keeps it *)
Theorem step_window_shape md r c lag b cs :
  readout r = window b cs -> asc cs ->
  exists b' cs', readout (fst (ring_step md r c lag)) = window b' cs' /\ (b' + length cs' = b + length cs)%nat /\ asc cs'.
Proof.
  intros Hr Ha. apply readout_window_inv in Hr. subst r.
  pose proof (asc_desc_rev _ Ha) as Hd. rewrite (ring_step_abs md _ _ _ _ Hd).
  destruct (abs_step md (rev cs) b c lag) as [[cs' b'] a0] eqn:E. cbn [fst].
  destruct (abs_step_shape _ _ _ _ _ _ _ _ Hd E) as [Hd' Hlen]. rewrite rev_length in Hlen.
  exists b', (rev cs'). rewrite readout_conc, rev_length. repeat split; [lia|apply desc_asc_rev; exact Hd'].
Qed.

Lemma asc_NoDup cs : asc cs -> NoDup (map co_order cs).
Proof.
  unfold asc. generalize (map co_order cs). intros l H. induction H as [|a l Hs IH Ha]; constructor; [|exact IH].
  intros Hin. rewrite Forall_forall in Ha. specialize (Ha a Hin). lia.
Qed.

(* the same invariant in the form a storage-level induction needs (every partition ring is created by new_ring
   and only ever updated by ring_step) *)
Lemma wf_new_ring n : wf n (new_ring n).
Proof. exists [], n. repeat split; constructor. Qed.

Lemma wf_ring_step md n r c lag : wf n r -> wf n (fst (ring_step md r c lag)).
Proof.
  intros (cs & b & Hs & Hd & Hlen). unfold shape in Hs. subst r. rewrite (ring_step_abs md _ _ _ _ Hd).
  destruct (abs_step md cs b c lag) as [[cs' b'] a0] eqn:E. cbn [fst].
  destruct (abs_step_shape _ _ _ _ _ _ _ _ Hd E) as [Hd' Hlen'].
  exists cs', b'. repeat split; [exact Hd'|lia].
Qed.

Lemma wf_readout n r : wf n r -> exists b cs, readout r = window b cs /\ (b + length cs = n)%nat /\ asc cs.
Proof.
  intros (cs & b & Hs & Hd & Hlen). unfold shape in Hs. subst r. exists b, (rev cs).
  rewrite readout_conc, rev_length. repeat split; [lia|apply desc_asc_rev; exact Hd].
Qed.

(* ---------- window_newest_last ---------- *)
Definition omax (o : option Z) (x : Z) : option Z := Some (match o with None => x | Some m => Z.max m x end).
Definition max_order (l : list (commit * Z)) : option Z := fold_left (fun o cl => omax o (cm_order (fst cl))) l None.

Lemma max_order_spec l :
  match max_order l with
  | None => l = []
  | Some m => (exists cl, In cl l /\ cm_order (fst cl) = m) /\ (forall cl, In cl l -> cm_order (fst cl) <= m)
  end.
Proof.
  unfold max_order. induction l as [|cl l IH] using rev_ind; [reflexivity|].
  rewrite fold_left_app. cbn [fold_left omax].
  destruct (fold_left (fun o cl0 => omax o (cm_order (fst cl0))) l None) as [m|].
  - destruct IH as [(w & Hw & Ew) Hub]. split.
    + destruct (Z.max_spec m (cm_order (fst cl))) as [[_ ->]|[_ ->]].
      * exists cl. split; [apply in_or_app; right; left; reflexivity|reflexivity].
      * exists w. split; [apply in_or_app; left; exact Hw|exact Ew].
    + intros x Hx. apply in_app_or in Hx. destruct Hx as [Hx|[<-|[]]]; [specialize (Hub x Hx)|]; lia.
  - subst l. split; [exists cl; split; [left; reflexivity|reflexivity]|]. intros x [<-|[]]. lia.
Qed.

Lemma abs_run_top md n l : (1 <= n)%nat -> top (fst (abs_run md n l)) = max_order l.
Proof.
  intros Hn. induction l as [|cl l IH] using rev_ind; [reflexivity|].
  destruct (run_refines md n l) as (Hd & Hlen & _).
  rewrite abs_run_snoc. unfold max_order. rewrite fold_left_app. cbn [fold_left]. fold (max_order l). rewrite <- IH.
  unfold abs_next. destruct (abs_step md (fst (abs_run md n l)) (snd (abs_run md n l)) (fst cl) (snd cl)) as [[cs' b'] a0] eqn:E.
  assert (Hl : (1 <= length (fst (abs_run md n l)) + snd (abs_run md n l))%nat) by lia.
  cbn [fst]. rewrite (abs_step_top _ _ _ _ _ _ _ _ Hd Hl E). reflexivity.
Qed.

Lemma last_rev_hd {A} (l : list A) d : last (rev l) d = hd d l.
Proof. destruct l as [|a l]; [reflexivity|]. cbn [rev hd]. apply last_last. Qed.

Theorem run_newest_last md n l :
  (1 <= n)%nat -> l <> [] ->
  exists k, last (readout (ring_run md n l)) None = Some k /\
            (exists cl, In cl l /\ cm_order (fst cl) = co_order k) /\
            (forall cl, In cl l -> cm_order (fst cl) <= co_order k).
Proof.
  intros Hn Hne. destruct (run_refines md n l) as (_ & _ & Heq).
  pose proof (abs_run_top md n l Hn) as Ht. pose proof (max_order_spec l) as Hm.
  rewrite Heq. unfold readout. rewrite last_rev_hd. unfold conc.
  destruct (fst (abs_run md n l)) as [|k cs]; cbn [top] in Ht; rewrite <- Ht in Hm; [contradiction|].
  exists k. split; [reflexivity|exact Hm].
Qed.

(* ---------- merge_spec and its complement, on the read-out ---------- *)
Definition lag_of (hi : list coff) (lag : Z) : option Z := match hi with [] => Some lag | _ => None end.
Definition is_nil {A} (l : list A) : bool := match l with [] => true | _ => false end.

Lemma lag_of_rev hi lag : match rev hi with [] => Some lag | _ => None end = lag_of hi lag.
Proof. destruct hi as [|h hi]; [reflexivity|]. cbn [rev lag_of]. destruct (rev hi); reflexivity. Qed.

Lemma is_nil_rev {A} (hi : list A) : match rev hi with [] => true | _ => false end = is_nil hi.
Proof. destruct hi as [|h hi]; [reflexivity|]. cbn [rev is_nil]. destruct (rev hi); reflexivity. Qed.

Lemma removelast_rev {A} (l : list A) : removelast (rev l) = rev (tl l).
Proof. destruct l as [|a l]; [reflexivity|]. cbn [rev tl]. apply removelast_last. Qed.

(* The stored commits (oldest first) are lo ++ pv :: hi, pv is the commit just before c in the log among them, and
   c is closer to pv than the minimum distance: pv's slot takes c's offset and log position and keeps pv's
   timestamp; no slot is taken, nothing else moves.  The lag field is set only when c is the newest. *)
Theorem step_merge md r c lag b lo pv hi :
  readout r = window b (lo ++ pv :: hi) -> asc (lo ++ pv :: hi) ->
  co_order pv < cm_order c -> Forall (above (cm_order c)) hi ->
  merges md pv c = true ->
  readout (fst (ring_step md r c lag)) = window b (lo ++ merged pv c (lag_of hi lag) :: hi) /\
  snd (ring_step md r c lag) = is_nil hi.
Proof.
  intros Hr Ha Hlt Hhi Hm. apply readout_window_inv in Hr. subst r.
  pose proof (asc_desc_rev _ Ha) as Hd. rewrite (ring_step_abs md _ _ _ _ Hd).
  assert (Er : rev (lo ++ pv :: hi) = rev hi ++ pv :: rev lo).
  { rewrite rev_app_distr. cbn [rev]. rewrite <- app_assoc. reflexivity. }
  assert (Es : split_at (cm_order c) (rev (lo ++ pv :: hi)) = (rev hi, pv :: rev lo)).
  { rewrite Er. apply split_at_spec; [apply Forall_rev; exact Hhi|lia]. }
  rewrite (abs_step_merge md _ b c lag _ _ _ Es Hlt Hm). cbn [fst snd].
  rewrite readout_conc, lag_of_rev, is_nil_rev. split; [|reflexivity].
  f_equal. rewrite rev_app_distr. cbn [rev]. rewrite !rev_involutive, <- app_assoc. reflexivity.
Qed.

(* The stored commits are lo ++ hi with lo earlier and hi later in the log than c (so c's position is not stored),
   and c does not merge into the last commit of lo (or lo is empty): c takes a slot of its own -- a free one if
   there is one, otherwise the oldest commit is pushed out; a commit older than a full window is ignored. *)
Theorem step_no_merge md r c lag b lo hi :
  readout r = window b (lo ++ hi) -> asc (lo ++ hi) ->
  Forall (fun x => co_order x < cm_order c) lo -> Forall (above (cm_order c)) hi ->
  (forall lo0 pv, lo = lo0 ++ [pv] -> merges md pv c = false) ->
  readout (fst (ring_step md r c lag)) =
    match b, lo with
    | S b', _ => window b' (lo ++ fresh c (lag_of hi lag) :: hi)
    | O, [] => window O hi
    | O, _ :: lo' => window O (lo' ++ fresh c (lag_of hi lag) :: hi)
    end.
Proof.
  intros Hr Ha Hlo Hhi Hm. apply readout_window_inv in Hr. subst r.
  pose proof (asc_desc_rev _ Ha) as Hd. rewrite (ring_step_abs md _ _ _ _ Hd).
  assert (Er : rev (lo ++ hi) = rev hi ++ rev lo) by apply rev_app_distr.
  assert (Es : split_at (cm_order c) (rev (lo ++ hi)) = (rev hi, rev lo)).
  { rewrite Er. apply split_at_spec; [apply Forall_rev; exact Hhi|].
    destruct (rev lo) as [|x rl] eqn:E; [exact I|].
    assert (Hx : In x lo) by (apply in_rev; rewrite E; left; reflexivity).
    rewrite Forall_forall in Hlo. specialize (Hlo x Hx). lia. }
  assert (Hpre : match rev lo with [] => True | pv :: _ => co_order pv < cm_order c /\ merges md pv c = false end).
  { destruct (rev lo) as [|x rl] eqn:E; [exact I|].
    assert (El : lo = rev rl ++ [x]) by (rewrite <- (rev_involutive lo), E; reflexivity).
    split; [|eapply Hm; exact El].
    rewrite Forall_forall in Hlo. apply Hlo. rewrite El. apply in_or_app. right. left. reflexivity. }
  rewrite (abs_step_no_merge md _ b c lag _ _ Es Hpre). rewrite lag_of_rev.
  destruct b as [|b'].
  - destruct lo as [|x lo']; [cbn [rev]; cbn [fst]; rewrite readout_conc, Er, rev_app_distr, !rev_involutive; reflexivity|].
    destruct (rev (x :: lo')) as [|y rl] eqn:E.
    { exfalso. apply (f_equal (@length _)) in E. rewrite rev_length in E. discriminate. }
    cbn [fst]. rewrite readout_conc. f_equal. rewrite <- E, removelast_rev. cbn [tl].
    rewrite rev_app_distr. cbn [rev]. rewrite !rev_involutive, <- app_assoc. reflexivity.
  - cbn [fst]. rewrite readout_conc. f_equal. rewrite rev_app_distr. cbn [rev]. rewrite !rev_involutive, <- app_assoc. reflexivity.
Qed.

(* a log position that is already stored is ignored (no duplicates) *)
Theorem step_duplicate md r c lag b cs x :
  readout r = window b cs -> asc cs -> In x cs -> co_order x = cm_order c ->
  ring_step md r c lag = (r, false).
Proof.
  intros Hr Ha Hin Hx. apply readout_window_inv in Hr. subst r.
  pose proof (asc_desc_rev _ Ha) as Hd. rewrite (ring_step_abs md _ _ _ _ Hd).
  apply in_rev in Hin. destruct (in_split _ _ Hin) as (hi & lo & E). rewrite E in *.
  unfold abs_step. rewrite split_at_spec; [| |lia].
  - rewrite Hx, Z.eqb_refl. reflexivity.
  - eapply Forall_impl; [|apply (desc_all_gt hi x lo Hd)]. intros y Hy; unfold above; cbn beta in Hy; lia.
Qed.

(* ---------- window_topN: with minimum distance 0 and timestamps that do not decrease along the log ---------- *)
(* the commits seen, newest first by log position, one per log position (the first to arrive with that position) *)
Definition sorted_set (l : list commit) : list triple := fold_left (fun acc c => insert_desc (pc c) acc) l [].

Definition ts_monotone (l : list commit) : Prop :=
  forall c1 c2, In c1 l -> In c2 l -> cm_order c1 < cm_order c2 -> cm_ts c1 <= cm_ts c2.
(* the int64 subtraction of two timestamps does not wrap (true of any timestamps of one sign, in particular of
   everything the storage module lets through its too-old test with a clock later than expire-group) *)
Definition ts_span_ok (l : list commit) : Prop :=
  forall c1 c2, In c1 l -> In c2 l -> in_i64 (cm_ts c2 - cm_ts c1).
Definition order_functional (l : list commit) : Prop :=
  forall c1 c2, In c1 l -> In c2 l -> cm_order c1 = cm_order c2 -> c1 = c2.

Lemma ts_span_ok_nonneg l : Forall (fun c => 0 <= cm_ts c < two63) l -> ts_span_ok l.
Proof.
  intros H c1 c2 H1 H2. rewrite Forall_forall in H. pose proof (H c1 H1). pose proof (H c2 H2).
  unfold in_i64, two63 in *. lia.
Qed.

Lemma ts_span_ok_small l : Forall (fun c => ts_ok (cm_ts c)) l -> ts_span_ok l.
Proof.
  intros H c1 c2 H1 H2. rewrite Forall_forall in H. pose proof (H c1 H1). pose proof (H c2 H2).
  unfold in_i64, two63, ts_ok in *. lia.
Qed.

Lemma merges_zero_false pv c : in_i64 (cm_ts c - co_ts pv) -> co_ts pv <= cm_ts c -> merges 0 pv c = false.
Proof.
  unfold merges. intros Hr Hle.
  assert (E1 : sub64 (cm_ts c) (co_ts pv) = cm_ts c - co_ts pv) by (apply wrap64_id; exact Hr).
  rewrite E1. change (mul64 0 1000) with 0. destruct (co_order pv <? cm_order c); [|reflexivity].
  cbn [andb]. apply Z.ltb_ge. lia.
Qed.

Definition sdesc (S : list triple) : Prop := StronglySorted (fun a b => t_order b < t_order a) S.

Lemma insert_desc_in v S y : In y (insert_desc v S) -> y = v \/ In y S.
Proof.
  induction S as [|a S IH]; cbn [insert_desc].
  - intros [<-|[]]; auto.
  - destruct (t_order a <? t_order v); [intros [<-|H]; auto|].
    destruct (t_order a =? t_order v); [auto|]. intros [<-|H]; [right; left; reflexivity|].
    destruct (IH H); auto. right; right; assumption.
Qed.

Lemma insert_desc_keeps v S y : In y S -> In y (insert_desc v S).
Proof.
  induction S as [|a S IH]; cbn [insert_desc]; [intros []|].
  destruct (t_order a <? t_order v); [intros H; right; exact H|].
  destruct (t_order a =? t_order v); [auto|]. intros [<-|H]; [left; reflexivity|right; apply IH; exact H].
Qed.

Lemma insert_desc_has v S : exists y, In y (insert_desc v S) /\ t_order y = t_order v.
Proof.
  induction S as [|a S IH]; cbn [insert_desc]; [exists v; split; [left|]; reflexivity|].
  destruct (t_order a <? t_order v); [exists v; split; [left|]; reflexivity|].
  destruct (t_order a =? t_order v) eqn:E; [apply Z.eqb_eq in E; exists a; split; [left; reflexivity|exact E]|].
  destruct IH as (y & Hy & Ey). exists y. split; [right; exact Hy|exact Ey].
Qed.

Lemma insert_desc_sorted v S : sdesc S -> sdesc (insert_desc v S).
Proof.
  unfold sdesc. induction S as [|a S IH]; cbn [insert_desc]; intros Hs; [repeat constructor|].
  inversion Hs as [|? ? Hs' Ha]; subst.
  destruct (t_order a <? t_order v) eqn:E1.
  - apply Z.ltb_lt in E1. constructor; [exact Hs|]. constructor; [exact E1|].
    eapply Forall_impl; [|exact Ha]. intros b Hb; cbn beta in Hb; lia.
  - apply Z.ltb_ge in E1. destruct (t_order a =? t_order v) eqn:E2; [exact Hs|]. apply Z.eqb_neq in E2.
    constructor; [apply IH; exact Hs'|]. rewrite Forall_forall in *. intros y Hy.
    destruct (insert_desc_in _ _ _ Hy) as [->|Hin]; [lia|apply Ha; exact Hin].
Qed.

(* a new element enters only if no stored element has its log position *)
Lemma insert_desc_new v S y :
  sdesc S -> In y (insert_desc v S) -> In y S \/ (y = v /\ forall z, In z S -> t_order z <> t_order v).
Proof.
  unfold sdesc. induction S as [|a S IH]; cbn [insert_desc]; intros Hs.
  - intros [<-|[]]. right. split; [reflexivity|intros z []].
  - inversion Hs as [|? ? Hs' Ha]; subst. rewrite Forall_forall in Ha.
    destruct (t_order a <? t_order v) eqn:E1.
    + apply Z.ltb_lt in E1. intros [<-|H]; [|left; exact H]. right. split; [reflexivity|].
      intros z [<-|Hz]; [lia|specialize (Ha z Hz); lia].
    + apply Z.ltb_ge in E1. destruct (t_order a =? t_order v) eqn:E2; [intros H; left; exact H|]. apply Z.eqb_neq in E2.
      intros [<-|H]; [left; left; reflexivity|].
      destruct (IH Hs' H) as [Hin|[-> Hno]]; [left; right; exact Hin|].
      right. split; [reflexivity|]. intros z [<-|Hz]; [exact E2|apply Hno; exact Hz].
Qed.

Lemma sorted_set_snoc l c : sorted_set (l ++ [c]) = insert_desc (pc c) (sorted_set l).
Proof. unfold sorted_set. rewrite fold_left_app. reflexivity. Qed.

Lemma sorted_set_sorted l : sdesc (sorted_set l).
Proof.
  induction l as [|c l IH] using rev_ind; [constructor|]. rewrite sorted_set_snoc. apply insert_desc_sorted; exact IH.
Qed.

Lemma sorted_set_in l x : In x (sorted_set l) -> exists c, In c l /\ pc c = x.
Proof.
  induction l as [|c l IH] using rev_ind; [intros []|]. rewrite sorted_set_snoc. intros H.
  destruct (insert_desc_in _ _ _ H) as [->|Hin].
  - exists c. split; [apply in_or_app; right; left; reflexivity|reflexivity].
  - destruct (IH Hin) as (c0 & Hc0 & E). exists c0. split; [apply in_or_app; left; exact Hc0|exact E].
Qed.

Lemma sorted_set_has l c : In c l -> exists x, In x (sorted_set l) /\ t_order x = cm_order c.
Proof.
  induction l as [|c0 l IH] using rev_ind; [intros []|]. rewrite sorted_set_snoc. intros H.
  apply in_app_or in H. destruct H as [H|[<-|[]]].
  - destruct (IH H) as (x & Hx & Ex). exists x. split; [apply insert_desc_keeps; exact Hx|exact Ex].
  - apply (insert_desc_has (pc c0)).
Qed.

(* which payload is kept for a log position: that of the first commit to arrive with it *)
Theorem sorted_set_first l x :
  In x (sorted_set l) <->
  exists pre c post, l = pre ++ c :: post /\ pc c = x /\ (forall c', In c' pre -> cm_order c' <> cm_order c).
Proof.
  induction l as [|c0 l IH] using rev_ind.
  - split; [intros []|]. intros (pre & c & post & E & _). destruct pre; discriminate.
  - rewrite sorted_set_snoc. split.
    + intros H. destruct (insert_desc_new _ _ _ (sorted_set_sorted l) H) as [Hin|[-> Hno]].
      * apply IH in Hin. destruct Hin as (pre & c & post & -> & E & Hpre).
        exists pre, c, (post ++ [c0]). split; [rewrite <- app_assoc; reflexivity|]. split; assumption.
      * exists l, c0, []. split; [reflexivity|]. split; [reflexivity|].
        intros c' Hc' Eo. destruct (sorted_set_has l c' Hc') as (z & Hz & Ez).
        apply (Hno z Hz). rewrite Ez, Eo. reflexivity.
    + intros (pre & c & post & E & Ex & Hpre).
      destruct post as [|p post'] using rev_ind.
      * apply app_inj_tail in E. destruct E as [-> ->].
        destruct (insert_desc_has (pc c) (sorted_set pre)) as (y & Hy & Ey).
        destruct (insert_desc_in _ _ _ Hy) as [->|Hin]; [rewrite <- Ex; exact Hy|].
        exfalso. destruct (sorted_set_in _ _ Hin) as (c' & Hc' & E'). apply (Hpre c' Hc').
        rewrite <- E' in Ey. exact Ey.
      * clear IHpost'. rewrite app_comm_cons, app_assoc in E. apply app_inj_tail in E. destruct E as [-> ->].
        apply insert_desc_keeps. apply IH. exists pre, c, post'. auto.
Qed.

Lemma sorted_set_mem l x : order_functional l -> (In x (sorted_set l) <-> exists c, In c l /\ pc c = x).
Proof.
  intros Hf. split; [apply sorted_set_in|]. intros (c & Hc & <-).
  destruct (sorted_set_has l c Hc) as (y & Hy & Ey).
  destruct (sorted_set_in _ _ Hy) as (c' & Hc' & <-).
  rewrite (Hf c c' Hc Hc' (eq_sym Ey)). exact Hy.
Qed.

Lemma sdesc_unique S1 S2 : sdesc S1 -> sdesc S2 -> (forall x, In x S1 <-> In x S2) -> S1 = S2.
Proof.
  unfold sdesc. revert S2. induction S1 as [|a S1 IH]; intros S2 H1 H2 Hm.
  - destruct S2 as [|b S2]; [reflexivity|]. exfalso. apply (Hm b). left; reflexivity.
  - destruct S2 as [|b S2]; [exfalso; apply (Hm a); left; reflexivity|].
    inversion H1 as [|? ? H1' Ha]; subst. inversion H2 as [|? ? H2' Hb]; subst.
    rewrite Forall_forall in Ha, Hb.
    assert (Eab : a = b).
    { destruct (proj1 (Hm a) (or_introl eq_refl)) as [E|Hin]; [auto|].
      destruct (proj2 (Hm b) (or_introl eq_refl)) as [E|Hin']; [auto|].
      specialize (Ha b Hin'). specialize (Hb a Hin). lia. }
    subst b. f_equal. apply IH; [exact H1'|exact H2'|].
    intros x. split; intros Hx.
    + destruct (proj1 (Hm x) (or_intror Hx)) as [E|Hin]; [|exact Hin]. subst x. specialize (Ha a Hx). lia.
    + destruct (proj2 (Hm x) (or_intror Hx)) as [E|Hin]; [|exact Hin]. subst x. specialize (Hb a Hx). lia.
Qed.

(* when a log position determines the commit, the sorted set is a function of the set of commits seen *)
Theorem sorted_set_set l1 l2 :
  order_functional l1 -> (forall c, In c l1 <-> In c l2) -> sorted_set l1 = sorted_set l2.
Proof.
  intros Hf Hs.
  assert (Hf2 : order_functional l2).
  { intros c1 c2 H1 H2. apply Hf; apply Hs; assumption. }
  apply sdesc_unique; [apply sorted_set_sorted|apply sorted_set_sorted|].
  intros x. rewrite (sorted_set_mem l1 x Hf), (sorted_set_mem l2 x Hf2).
  split; intros (c & Hc & E); exists c; (split; [apply Hs; exact Hc|exact E]).
Qed.

Lemma ts_monotone_prefix l x : ts_monotone (l ++ [x]) -> ts_monotone l.
Proof. intros H c1 c2 H1 H2. apply H; apply in_or_app; left; assumption. Qed.
Lemma ts_span_ok_prefix l x : ts_span_ok (l ++ [x]) -> ts_span_ok l.
Proof. intros H c1 c2 H1 H2. apply H; apply in_or_app; left; assumption. Qed.

Lemma firstn_In_ {A} (x : A) k l : In x (firstn k l) -> In x l.
Proof.
  revert k; induction l as [|a l IH]; intros k; [rewrite firstn_nil; auto|].
  destruct k as [|k]; [intros []|]. cbn [firstn]. intros [<-|H]; [left; reflexivity|right; eapply IH; exact H].
Qed.

Lemma abs_run_topn n l :
  ts_monotone (map fst l) -> ts_span_ok (map fst l) ->
  (forall x, In x (fst (abs_run 0 n l)) -> exists c, In c (map fst l) /\ proj x = pc c) /\
  map proj (fst (abs_run 0 n l)) = firstn n (sorted_set (map fst l)).
Proof.
  induction l as [|cl l IH] using rev_ind; intros Hmono Hspan.
  - cbn. split; [intros x []|rewrite firstn_nil; reflexivity].
  - rewrite map_app in Hmono, Hspan. cbn [map] in Hmono, Hspan.
    destruct (IH (ts_monotone_prefix _ _ Hmono) (ts_span_ok_prefix _ _ Hspan)) as [Hsub Htop].
    destruct (run_refines 0 n l) as (Hd & Hlen & _).
    rewrite abs_run_snoc, map_app. cbn [map]. unfold abs_next.
    set (s := abs_run 0 n l) in *.
    destruct (abs_step 0 (fst s) (snd s) (fst cl) (snd cl)) as [[cs' b'] a0] eqn:Est. cbn [fst].
    assert (Hin : In (fst cl) (map fst l ++ [fst cl])) by (apply in_or_app; right; left; reflexivity).
    assert (Hnm : forall pv, In pv (fst s) -> co_order pv < cm_order (fst cl) -> merges 0 pv (fst cl) = false).
    { intros pv Hpv Hlt. destruct (Hsub pv Hpv) as (c0 & Hc0 & Hp).
      unfold proj, pc in Hp. injection Hp as Ho Hor Ht.
      assert (Hc0' : In c0 (map fst l ++ [fst cl])) by (apply in_or_app; left; exact Hc0).
      apply merges_zero_false; rewrite Ht; [apply Hspan; assumption|apply Hmono; [assumption|assumption|lia]]. }
    pose proof (abs_step_topn _ _ _ _ _ _ _ _ Hd Hnm Est) as Hstep.
    split.
    + intros x Hx.
      assert (Hpx : In (proj x) (map proj cs')) by (apply in_map; exact Hx).
      rewrite Hstep in Hpx. apply firstn_In_ in Hpx.
      destruct (insert_desc_in _ _ _ Hpx) as [E|Hold].
      * exists (fst cl). split; [exact Hin|exact E].
      * apply in_map_iff in Hold. destruct Hold as (y & Ey & Hy). destruct (Hsub y Hy) as (c0 & Hc0 & Hp).
        exists c0. split; [apply in_or_app; left; exact Hc0|congruence].
    + rewrite Hstep, Htop, Hlen, sorted_set_snoc. apply firstn_insert_firstn.
Qed.

Definition stored_proj (r : ring) : list (option triple) := map (option_map proj) (readout r).
Definition topn (n : nat) (l : list commit) : list triple := firstn n (sorted_set l).

Lemma map_option_window b cs : map (option_map proj) (window b cs) = repeat None b ++ map Some (map proj cs).
Proof.
  unfold window. rewrite map_app, map_map. f_equal.
  - induction b as [|b IH]; [reflexivity|]. cbn [repeat map option_map]. rewrite IH. reflexivity.
  - rewrite map_map. reflexivity.
Qed.

(* window_topN *)
Theorem run_topn n l :
  ts_monotone (map fst l) -> ts_span_ok (map fst l) ->
  stored_proj (ring_run 0 n l) =
  repeat None (n - length (topn n (map fst l))) ++ map Some (rev (topn n (map fst l))).
Proof.
  intros Hmono Hspan. destruct (abs_run_topn n l Hmono Hspan) as [_ Htop].
  destruct (run_refines 0 n l) as (_ & Hlen & Heq).
  unfold stored_proj, topn. rewrite Heq. unfold conc. rewrite readout_conc, map_option_window.
  rewrite map_rev, Htop. f_equal. f_equal.
  rewrite <- Htop, map_length. lia.
Qed.

(* window_arrival_independent *)
Theorem run_arrival_independent n l1 l2 :
  ts_monotone (map fst l1) -> ts_span_ok (map fst l1) -> order_functional (map fst l1) ->
  (forall c, In c (map fst l1) <-> In c (map fst l2)) ->
  stored_proj (ring_run 0 n l1) = stored_proj (ring_run 0 n l2).
Proof.
  intros Hmono Hspan Hf Hs.
  assert (Hmono2 : ts_monotone (map fst l2)) by (intros c1 c2 H1 H2; apply Hmono; apply Hs; assumption).
  assert (Hspan2 : ts_span_ok (map fst l2)) by (intros c1 c2 H1 H2; apply Hspan; apply Hs; assumption).
  rewrite (run_topn n l1 Hmono Hspan), (run_topn n l2 Hmono2 Hspan2).
  unfold topn. rewrite (sorted_set_set _ _ Hf Hs). reflexivity.
Qed.

(* ---------- the side conditions of the top-N statement are needed ---------- *)
Definition mk (off order ts : Z) : commit * Z := (mkCommit off order ts, 0).

Ltac two_elems := intros c1 c2 [<-|[<-|[]]] [<-|[<-|[]]]; cbn; unfold in_i64, two63; try lia; try reflexivity; try discriminate.

(* minimum distance > 0: the second commit arrives 1 s after the first and merges into it, but only in log order *)
Lemma topn_needs_md0_refuted :
  exists md n l1 l2,
    0 < md /\ ts_monotone (map fst l1) /\ ts_span_ok (map fst l1) /\ order_functional (map fst l1) /\
    (forall c, In c (map fst l1) <-> In c (map fst l2)) /\
    stored_proj (ring_run md n l1) <> stored_proj (ring_run md n l2).
Proof.
  exists 5, 3%nat, [mk 100 10 1600000000000; mk 200 20 1600000001000], [mk 200 20 1600000001000; mk 100 10 1600000000000].
  split; [lia|]. split; [two_elems|]. split; [two_elems|]. split; [two_elems|].
  split; [intros c; cbn; tauto|]. vm_compute. discriminate.
Qed.

(* timestamps that decrease along the log: at distance 0 the difference is negative, hence "closer than 0" *)
Lemma topn_needs_ts_monotone_refuted :
  exists n l1 l2,
    ts_span_ok (map fst l1) /\ order_functional (map fst l1) /\
    (forall c, In c (map fst l1) <-> In c (map fst l2)) /\
    stored_proj (ring_run 0 n l1) <> stored_proj (ring_run 0 n l2).
Proof.
  exists 3%nat, [mk 100 10 1600000005000; mk 200 20 1600000001000], [mk 200 20 1600000001000; mk 100 10 1600000005000].
  split; [two_elems|]. split; [two_elems|].
  split; [intros c; cbn; tauto|]. vm_compute. discriminate.
Qed.

(* timestamps whose int64 difference wraps: 2^63-1 - (-2^63) = -1 in Go *)
Lemma topn_needs_ts_span_refuted :
  exists n l1 l2,
    ts_monotone (map fst l1) /\ order_functional (map fst l1) /\
    (forall c, In c (map fst l1) <-> In c (map fst l2)) /\
    stored_proj (ring_run 0 n l1) <> stored_proj (ring_run 0 n l2).
Proof.
  exists 3%nat, [mk 100 10 (-9223372036854775808); mk 200 20 9223372036854775807],
                [mk 200 20 9223372036854775807; mk 100 10 (-9223372036854775808)].
  split; [two_elems|]. split; [two_elems|].
  split; [intros c; cbn; tauto|]. vm_compute. discriminate.
Qed.

(* two different commits claiming one log position: the first to arrive stays *)
Lemma arrival_needs_order_functional_refuted :
  exists n l1 l2,
    ts_monotone (map fst l1) /\ ts_span_ok (map fst l1) /\
    (forall c, In c (map fst l1) <-> In c (map fst l2)) /\
    stored_proj (ring_run 0 n l1) <> stored_proj (ring_run 0 n l2).
Proof.
  exists 3%nat, [mk 100 10 1600000000000; mk 999 10 1600000000000], [mk 999 10 1600000000000; mk 100 10 1600000000000].
  split; [two_elems|]. split; [two_elems|].
  split; [intros c; cbn; tauto|]. vm_compute. discriminate.
Qed.


(* ---------- first sentence at full generality: every stored commit is made of arrived commits ---------- *)
Lemma in_removelast {A} (x : A) l : In x (removelast l) -> In x l.
Proof.
  induction l as [|a l IH]; [intros []|]. destruct l as [|a' l]; [intros []|].
  change (removelast (a :: a' :: l)) with (a :: removelast (a' :: l)). intros [<-|H]; [left; reflexivity|right; apply IH; exact H].
Qed.

(* what one arrival can put into the window: entries already there, the commit itself, or the commit merged into its
   stored log predecessor (offset and position of the commit, timestamp of the predecessor) *)
Lemma abs_step_elems md cs b c lag cs' b' a k :
  abs_step md cs b c lag = (cs', b', a) -> In k cs' ->
  In k cs \/ (exists lg, k = fresh c lg) \/
  (exists pv lg, In pv cs /\ co_order pv < cm_order c /\ merges md pv c = true /\ k = merged pv c lg).
Proof.
  unfold abs_step. destruct (split_at (cm_order c) cs) as [hi lo] eqn:Es.
  destruct (split_at_props _ _ _ _ Es) as (Ecs & _ & Hlo). subst cs.
  set (lagv := match hi with [] => Some lag | _ => None end).
  destruct lo as [|pv lo'].
  - destruct b as [|b0]; intros H; injection H as <- <- <-; intros Hk; [left; exact Hk|].
    apply in_app_or in Hk. destruct Hk as [Hk|[<-|[]]]; [left; rewrite app_nil_r; exact Hk|]. right. left. exists lagv. reflexivity.
  - destruct (co_order pv =? cm_order c) eqn:Edup; [intros H; injection H as <- <- <-; intros Hk; left; exact Hk|].
    apply Z.eqb_neq in Edup. assert (Hpv : co_order pv < cm_order c) by lia.
    destruct (merges md pv c) eqn:Em.
    + intros H; injection H as <- <- <-. intros Hk. apply in_app_or in Hk. destruct Hk as [Hk|[<-|Hk]].
      * left. apply in_or_app. left. exact Hk.
      * right. right. exists pv, lagv. repeat split; auto. apply in_or_app. right. left. reflexivity.
      * left. apply in_or_app. right. right. exact Hk.
    + destruct b as [|b0]; intros H; injection H as <- <- <-; intros Hk; apply in_app_or in Hk; destruct Hk as [Hk|[<-|Hk]].
      * left. apply in_or_app. left. exact Hk.
      * right. left. exists lagv. reflexivity.
      * left. apply in_or_app. right. apply in_removelast. exact Hk.
      * left. apply in_or_app. left. exact Hk.
      * right. left. exists lagv. reflexivity.
      * left. apply in_or_app. right. exact Hk.
Qed.

(* provenance of a stored entry: its offset and log position are those of ONE arrived commit; its timestamp is that of
   an arrived commit not later in the log (the same one unless commits were merged into an older one) *)
Definition made_of_arrivals (l : list (commit * Z)) (k : coff) : Prop :=
  (exists cl, In cl l /\ cm_offset (fst cl) = co_offset k /\ cm_order (fst cl) = co_order k) /\
  (exists cl, In cl l /\ cm_ts (fst cl) = co_ts k /\ cm_order (fst cl) <= co_order k).

Lemma made_of_arrivals_snoc l x k : made_of_arrivals l k -> made_of_arrivals (l ++ [x]) k.
Proof.
  intros [(c1 & H1 & E1) (c2 & H2 & E2)]. split; [exists c1|exists c2]; (split; [apply in_or_app; left; assumption|assumption]).
Qed.

Lemma abs_run_made_of_arrivals md n l k : In k (fst (abs_run md n l)) -> made_of_arrivals l k.
Proof.
  revert k. induction l as [|cl l IH] using rev_ind; intros k; [intros []|].
  rewrite abs_run_snoc. unfold abs_next.
  destruct (abs_step md (fst (abs_run md n l)) (snd (abs_run md n l)) (fst cl) (snd cl)) as [[cs' b'] a0] eqn:E. cbn [fst].
  intros Hk. assert (Hcl : In cl (l ++ [cl])) by (apply in_or_app; right; left; reflexivity).
  destruct (abs_step_elems _ _ _ _ _ _ _ _ _ E Hk) as [Hold|[(lg & ->)|(pv & lg & Hpv & Hlt & _ & ->)]].
  - apply made_of_arrivals_snoc, IH, Hold.
  - split; exists cl; (split; [exact Hcl|cbn; split; [reflexivity|]; try reflexivity; lia]).
  - split; [exists cl; split; [exact Hcl|split; reflexivity]|].
    destruct (IH pv Hpv) as [_ (c2 & H2 & Et & Eo)]. exists c2. split; [apply in_or_app; left; exact H2|].
    cbn [merged co_ts co_order]. split; [exact Et|lia].
Qed.

Theorem run_stored_arrived md n l k :
  In (Some k) (readout (ring_run md n l)) -> made_of_arrivals l k.
Proof.
  destruct (run_refines md n l) as (_ & _ & Heq). rewrite Heq. unfold readout, conc. intros H.
  apply in_rev in H. apply in_app_or in H. destruct H as [H|H].
  - apply in_map_iff in H. destruct H as (x & Ex & Hx). injection Ex as ->. apply abs_run_made_of_arrivals with (md := md) (n := n). exact Hx.
  - apply repeat_spec in H. discriminate.
Qed.

(* complete description for every minimum distance: the window is the fold of the one-arrival rule [abs_step] (a
   function on the sorted list of stored commits: split at the commit's log position; already stored => nothing;
   predecessor closer than the minimum distance => replace it, keep its timestamp; else a free slot, else push the
   oldest out, else -- older than a full window -- nothing) *)
Theorem run_is_rule_fold md n l :
  readout (ring_run md n l) = window (snd (abs_run md n l)) (rev (fst (abs_run md n l))).
Proof. destruct (run_refines md n l) as (_ & _ & Heq). rewrite Heq. apply readout_conc. Qed.

(* "closer in time than the minimum distance" as the code computes it: the SIGNED difference new - previous.  A commit
   later in the log whose timestamp is EARLIER than its predecessor's is therefore closer than any distance >= 0,
   the disabled distance 0 included. *)
Lemma merges_negative_gap md pv c :
  co_order pv < cm_order c -> cm_ts c < co_ts pv -> in_i64 (cm_ts c - co_ts pv) -> 0 <= md -> in_i64 (md * 1000) ->
  merges md pv c = true.
Proof.
  unfold merges. intros Ho Ht Hr Hmd Hm.
  assert (E1 : sub64 (cm_ts c) (co_ts pv) = cm_ts c - co_ts pv) by (apply wrap64_id; exact Hr).
  assert (E2 : mul64 md 1000 = md * 1000) by (apply wrap64_id; exact Hm).
  rewrite E1, E2. apply andb_true_iff. split; [apply Z.ltb_lt; exact Ho|apply Z.ltb_lt; lia].
Qed.

(* shape and provenance together: the first sentence of the property as far as it holds for ALL sequences *)
Theorem run_window_shape_arrived md n l :
  exists b cs, readout (ring_run md n l) = window b cs /\ (b + length cs = n)%nat /\ asc cs /\
               forall k, In k cs -> made_of_arrivals l k.
Proof.
  destruct (run_window_shape md n l) as (b & cs & Hr & Hlen & Ha). exists b, cs.
  split; [exact Hr|]. split; [exact Hlen|]. split; [exact Ha|].
  intros k Hk. apply (run_stored_arrived md n). rewrite Hr. unfold window. apply in_or_app. right. apply in_map. exact Hk.
Qed.
