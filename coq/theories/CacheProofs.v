(* Proofs about the evaluator cache model (C05): keys, then the invariant of Cache.step over every schedule. *)
From Coq Require Import ZArith List Bool Lia Decimal DecimalNat.
From Burrow Require Import Cache.
Import ListNotations.
Open Scope Z_scope.

Lemma bytes_eqb_eq : forall a b, bytes_eqb a b = true <-> a = b.
Proof.
  induction a as [|x a IH]; destruct b as [|y b]; cbn [bytes_eqb]; split; intro H; try congruence; try reflexivity.
  - apply andb_true_iff in H. destruct H as [H1 H2]. apply Z.eqb_eq in H1. apply IH in H2. congruence.
  - inversion H; subst. apply andb_true_iff. split. apply Z.eqb_refl. apply IH. reflexivity.
Qed.

Lemma split_first_space_app : forall a z, ~ In sp a -> split_first_space (a ++ sp :: z) = Some (a, z).
Proof.
  unfold sp. induction a as [|b a IH]; intros z Hn.
  - reflexivity.
  - change ((b :: a) ++ 32 :: z) with (b :: (a ++ 32 :: z)).
    cbn [split_first_space]. unfold sp.
    destruct (Z.eqb_spec b 32) as [->|Hne].
    + exfalso. apply Hn. left. reflexivity.
    + rewrite IH. reflexivity. intro Hin. apply Hn. right. exact Hin.
Qed.

Lemma bytes_uint_bytes : forall u, bytes_uint (uint_bytes u) = Some u.
Proof.
  induction u; cbn [uint_bytes bytes_uint]; try reflexivity; rewrite IHu; reflexivity.
Qed.

Lemma uint_bytes_digits : forall u b, In b (uint_bytes u) -> 48 <= b <= 57.
Proof.
  induction u; cbn [uint_bytes]; intros b Hb; try (destruct Hb as [<-|Hb]; [lia|auto]). contradiction.
Qed.

Lemma itoa_no_space : forall n, ~ In sp (itoa n).
Proof. intros n H. apply uint_bytes_digits in H. unfold sp in H. lia. Qed.

Lemma itoa_nonempty : forall n, itoa n <> [].
Proof.
  intros n H. unfold itoa in H.
  assert (Hu : Nat.to_uint n = Nil) by (destruct (Nat.to_uint n); cbn in H; congruence).
  pose proof (Unsigned.of_to n) as Hof. rewrite Hu in Hof. cbn in Hof. subst n. cbv in Hu. discriminate.
Qed.

Lemma atoi_itoa : forall n, atoi (itoa n) = Some n.
Proof.
  intros n. unfold atoi. pose proof (itoa_nonempty n) as Hne.
  destruct (itoa n) eqn:E; [congruence|]. rewrite <- E. unfold itoa. rewrite bytes_uint_bytes.
  rewrite Unsigned.of_to. reflexivity.
Qed.

(* ---------------------------------------------------------------------------------------------- *)
(* Keys                                                                                             *)
(* ---------------------------------------------------------------------------------------------- *)

(* the repaired key: splitCacheKey (cacheKey c g) = (c, g) for ALL byte strings *)
Theorem split_mk_key : forall c g, split_key (mk_key c g) = Some (c, g).
Proof.
  intros c g. unfold split_key, mk_key.
  rewrite split_first_space_app by apply itoa_no_space.
  rewrite atoi_itoa.
  assert (Hlt : (length c <? length (c ++ sp :: g))%nat = true).
  { apply Nat.ltb_lt. rewrite app_length. cbn. lia. }
  rewrite Hlt. rewrite app_nth2 by lia. rewrite Nat.sub_diag. cbn [nth]. rewrite Z.eqb_refl. cbn [andb].
  rewrite firstn_app, Nat.sub_diag, firstn_all. cbn [firstn]. rewrite app_nil_r.
  replace (S (length c)) with (length (c ++ [sp])) by (rewrite app_length; cbn; lia).
  replace (c ++ sp :: g) with ((c ++ [sp]) ++ g) by (rewrite <- app_assoc; reflexivity).
  rewrite skipn_app, skipn_all, Nat.sub_diag. reflexivity.
Qed.

Theorem key_injective : forall c1 g1 c2 g2, mk_key c1 g1 = mk_key c2 g2 -> c1 = c2 /\ g1 = g2.
Proof.
  intros c1 g1 c2 g2 H. pose proof (split_mk_key c1 g1) as H1. rewrite H, split_mk_key in H1.
  inversion H1. split; reflexivity.
Qed.

(* the key of the unrepaired code: correct only for cluster names without a space *)
Theorem split_mk_key_old : forall c g, no_space c -> split_key_old (mk_key_old c g) = Some (c, g).
Proof. intros c g Hn. unfold split_key_old, mk_key_old. apply split_first_space_app. exact Hn. Qed.

Theorem key_injective_old : forall c1 g1 c2 g2, no_space c1 -> no_space c2 ->
  mk_key_old c1 g1 = mk_key_old c2 g2 -> c1 = c2 /\ g1 = g2.
Proof.
  intros c1 g1 c2 g2 H1 H2 H. pose proof (split_mk_key_old c1 g1 H1) as E. rewrite H, split_mk_key_old in E by exact H2.
  inversion E. split; reflexivity.
Qed.

(* "a b" / "c" and "a" / "b c" *)
Theorem key_collision_refuted :
  exists c1 g1 c2 g2, (c1, g1) <> (c2, g2) /\ mk_key_old c1 g1 = mk_key_old c2 g2
                      /\ split_key_old (mk_key_old c1 g1) = Some (c2, g2).
Proof.
  exists [97; 32; 98], [99], [97], [98; 32; 99]. split; [discriminate|]. split; vm_compute; reflexivity.
Qed.

(* ---------------------------------------------------------------------------------------------- *)
(* Generic list lemmas                                                                              *)
(* ---------------------------------------------------------------------------------------------- *)

Lemma set_nth_length : forall A (l : list A) n a, length (set_nth l n a) = length l.
Proof. induction l as [|x l IH]; intros [|n] a; cbn; auto. Qed.

Lemma nth_error_set_nth_eq : forall A (l : list A) n a x,
  nth_error l n = Some x -> nth_error (set_nth l n a) n = Some a.
Proof. induction l as [|y l IH]; intros [|n] a x H; cbn in *; try discriminate; eauto. Qed.

Lemma nth_error_set_nth_neq : forall A (l : list A) n m a, n <> m ->
  nth_error (set_nth l n a) m = nth_error l m.
Proof.
  induction l as [|y l IH]; intros [|n] [|m] a H; cbn; try reflexivity; try congruence.
  apply IH. congruence.
Qed.

Lemma Forall_set_nth : forall A (P : A -> Prop) (l : list A) n a,
  Forall P l -> P a -> Forall P (set_nth l n a).
Proof.
  induction l as [|y l IH]; intros [|n] a Hl Ha; cbn; auto; inversion Hl; subst; constructor; auto.
Qed.

Lemma nth_error_Forall : forall A (P : A -> Prop) (l : list A) n x, Forall P l -> nth_error l n = Some x -> P x.
Proof. intros A P l n x Hl Hn. apply nth_error_In in Hn. rewrite Forall_forall in Hl. auto. Qed.

(* ---------------------------------------------------------------------------------------------- *)
(* The invariant of Cache.step                                                                      *)
(* ---------------------------------------------------------------------------------------------- *)

Section Proofs.
  Variables data value : Type.
  Variable evalf : Z -> data -> value.
  Variable filt : value -> value.
  Variable filt_op : value -> value * value.
  Variable lookup : Z -> name -> name -> option data.
  Variable mk : name -> name -> key.
  Variable split : key -> option (name * name).
  Variable L : Z.
  Variable fixed0 : bool.
  Hypothesis HL : 0 <= L.
  (* the cache is only consulted with a positive lifetime (repaired code: fixed0 = true; or expire-cache > 0) *)
  Hypothesis Hcfg : use_cache L fixed0 = true -> 0 < L.

  Notation stepf := (step data value evalf filt_op lookup mk split L fixed0).
  Notation State := (state data value).
  Notation Event := (event data value).

  (* what evaluateConsumerStatus makes of the key at storage time s *)
  Definition res_of (k : key) (s : Z) : option (cval value) :=
    match split k with
    | None => None
    | Some (c, g) => match lookup s c g with
                     | None => None
                     | Some d => Some (c, g, evalf s d)
                     end
    end.

  (* that storage fetch is in the trace *)
  Definition logged (k : key) (s : Z) (tr : list Event) : Prop :=
    match split k with
    | None => True
    | Some (c, g) => exists tid, In (EvLookup tid s c g (lookup s c g)) tr
    end.

  Definition entry_ok (clk : Z) (tr : list Event) (k : key) (e : entry value) : Prop :=
    e_res e = res_of k (e_snap e) /\ logged k (e_snap e) tr /\ e_snap e <= e_created e /\ e_created e <= clk.

  Definition phase_ok (clk : Z) (tr : list Event) (k : key) (start : Z) (ph : phase value) : Prop :=
    match ph with
    | PRead => True
    | PLookup => start <= clk
    | PStoreGood v s _ => Some v = res_of k s /\ logged k s tr /\ start <= s /\ s <= clk
    | PErrLoad s => None = res_of k s /\ logged k s tr /\ start <= s /\ s <= clk
    | PErrStore e => e_res e = None /\ entry_ok clk tr k e /\ start <= e_snap e
    | PReply res s c r _ => res = res_of k s /\ logged k s tr /\ s <= c /\ r <= c + L /\ start <= r /\ r <= clk /\ c <= clk
    | PDone => True
    end.

  Definition thread_ok (clk : Z) (tr : list Event) (th : thread value) : Prop :=
    phase_ok clk tr (mk (th_c th) (th_g th)) (th_start th) (th_ph th).

  Definition names_of (rc rg : name) (res : option (cval value)) : name * name * option value :=
    match res with
    | None => (rc, rg, None)
    | Some (c, g, v) => (c, g, Some v)
    end.

  Definition reply_ok (tr : list Event) (ev : Event) : Prop :=
    match ev with
    | EvReply tid t rc rg c g v s cr r start =>
        exists res, res = res_of (mk rc rg) s /\ (c, g, v) = names_of rc rg res /\ logged (mk rc rg) s tr
                    /\ s <= cr /\ r <= cr + L /\ start <= r /\ r <= t /\ cr <= t
    | _ => True
    end.

  Record inv1 (st : State) : Prop := mkInv1 {
    i_cache : Forall (fun ke => entry_ok (clock st) (trace st) (fst ke) (snd ke)) (cache st);
    i_threads : Forall (thread_ok (clock st) (trace st)) (threads st);
    i_trace : Forall (reply_ok (trace st)) (trace st) }.

  Lemma logged_mono : forall k s tr evs, logged k s tr -> logged k s (evs ++ tr).
  Proof.
    unfold logged. intros k s tr evs H. destruct (split k) as [[c g]|]; auto.
    destruct H as [tid H]. exists tid. apply in_or_app. right. exact H.
  Qed.

  Lemma entry_ok_mono : forall clk clk' tr evs k e, clk <= clk' ->
    entry_ok clk tr k e -> entry_ok clk' (evs ++ tr) k e.
  Proof.
    unfold entry_ok. intros clk clk' tr evs k e Hc (H1 & H2 & H3 & H4).
    repeat split; auto using logged_mono; lia.
  Qed.

  Lemma phase_ok_mono : forall clk clk' tr evs k start ph, clk <= clk' ->
    phase_ok clk tr k start ph -> phase_ok clk' (evs ++ tr) k start ph.
  Proof.
    intros clk clk' tr evs k start ph Hc H. destruct ph; cbn [phase_ok] in *; auto.
    - lia.
    - destruct H as (H1 & H2 & H3 & H4). repeat split; auto using logged_mono; lia.
    - destruct H as (H1 & H2 & H3 & H4). repeat split; auto using logged_mono; lia.
    - destruct H as (H1 & H2 & H3). split; [exact H1|split; [eapply entry_ok_mono; eauto|exact H3]].
    - destruct H as (H1 & H2 & H3 & H4 & H5 & H6 & H7). repeat split; auto using logged_mono; lia.
  Qed.

  Lemma reply_ok_mono : forall tr evs ev, reply_ok tr ev -> reply_ok (evs ++ tr) ev.
  Proof.
    intros tr evs ev H. destruct ev; cbn [reply_ok] in *; auto.
    destruct H as (res & H1 & H2 & H3 & H4). exists res. repeat split; try tauto. apply logged_mono. tauto.
  Qed.

  Lemma find_entry_ok : forall clk tr k m e,
    Forall (fun ke => entry_ok clk tr (fst ke) (snd ke)) m -> find_entry value k m = Some e -> entry_ok clk tr k e.
  Proof.
    induction m as [|[k' e'] m IH]; intros e Hm Hf; cbn [find_entry] in Hf; [discriminate|].
    inversion Hm as [|x y Hx Hy]; subst. destruct (bytes_eqb k k') eqn:E.
    - apply bytes_eqb_eq in E. subst k'. inversion Hf; subst. exact Hx.
    - apply IH; assumption.
  Qed.

  Lemma not_expired_le : forall e t, use_cache L fixed0 = true -> expired value L e t = false -> t <= e_created e + L.
  Proof.
    intros e t Hu He. apply Hcfg in Hu. unfold expired in He.
    assert (HL0 : (L =? 0) = false) by (apply Z.eqb_neq; lia). rewrite HL0 in He.
    destruct (e_res e); cbn in He; apply Z.ltb_ge in He; lia.
  Qed.

  (* one generic update: thread tid becomes th' (same names), new cache bindings, new events, spawned threads *)
  Lemma inv1_update : forall st tid th th' newc evs extra p t,
    inv1 st -> clock st <= t ->
    nth_error (threads st) tid = Some th ->
    th_c th' = th_c th -> th_g th' = th_g th ->
    Forall (fun ke => entry_ok t (evs ++ trace st) (fst ke) (snd ke)) newc ->
    thread_ok t (evs ++ trace st) th' ->
    Forall (thread_ok t (evs ++ trace st)) extra ->
    Forall (reply_ok (evs ++ trace st)) evs ->
    forall h, inv1 (mkState (newc ++ cache st) p (set_nth (threads st) tid th' ++ extra) (evs ++ trace st) t h).
  Proof.
    intros st tid th th' newc evs extra p t [Hc Ht Hr] Hclk Hth Hcn Hgn Hnew Hth' Hex Hev h.
    constructor; cbn [cache threads trace clock].
    - apply Forall_app. split; [exact Hnew|].
      eapply Forall_impl; [|exact Hc]. intros [k e] H. cbn in *. eapply entry_ok_mono; eauto.
    - apply Forall_app. split; [|exact Hex].
      apply Forall_set_nth; [|exact Hth'].
      eapply Forall_impl; [|exact Ht]. intros a H. unfold thread_ok in *. eapply phase_ok_mono; eauto.
    - apply Forall_app. split; [exact Hev|].
      eapply Forall_impl; [|exact Hr]. intros a H. apply reply_ok_mono. exact H.
  Qed.

  Lemma inv1_upd0 : forall st tid th th' newc evs p t,
    inv1 st -> clock st <= t ->
    nth_error (threads st) tid = Some th ->
    th_c th' = th_c th -> th_g th' = th_g th ->
    Forall (fun ke => entry_ok t (evs ++ trace st) (fst ke) (snd ke)) newc ->
    thread_ok t (evs ++ trace st) th' ->
    Forall (reply_ok (evs ++ trace st)) evs ->
    forall h, inv1 (mkState (newc ++ cache st) p (set_nth (threads st) tid th') (evs ++ trace st) t h).
  Proof.
    intros st tid th th' newc evs p t Hinv Hclk Hth Hcn Hgn Hnew Hth' Hev h.
    rewrite <- (app_nil_r (set_nth (threads st) tid th')).
    eapply inv1_update; eauto.
  Qed.

  Lemma inv1_clock : forall st t, inv1 st -> clock st <= t ->
    forall h, inv1 (mkState (cache st) (pend st) (threads st) (trace st) t h).
  Proof.
    intros st t [Hc Ht Hr] Hclk h. constructor; cbn [cache threads trace clock].
    - eapply Forall_impl; [|exact Hc]. intros [k e] H. exact (entry_ok_mono _ _ _ [] _ _ Hclk H).
    - eapply Forall_impl; [|exact Ht]. intros a H. exact (phase_ok_mono _ _ _ [] _ _ _ Hclk H).
    - exact Hr.
  Qed.

  Lemma logged_here : forall k s c g tid tr, split k = Some (c, g) ->
    logged k s (EvLookup tid s c g (lookup s c g) :: tr).
  Proof. intros k s c g tid tr Hs. unfold logged. rewrite Hs. exists tid. left. reflexivity. Qed.

  Lemma step_inv1 : forall st tid t0, inv1 st -> inv1 (stepf st tid t0).
  Proof.
    intros st tid t0 Hinv. unfold step.
    set (t := Z.max (clock st) t0). assert (Hclk : clock st <= t) by (subst t; lia).
    destruct (nth_error (threads st) tid) as [th|] eqn:Hth; [|apply inv1_clock; assumption].
    assert (Hph : thread_ok (clock st) (trace st) th)
      by (eapply nth_error_Forall; [apply (i_threads _ Hinv)|exact Hth]).
    unfold thread_ok in Hph.
    set (k := mk (th_c th) (th_g th)) in *.
    destruct (th_ph th) eqn:Eph; cbn [phase_ok] in Hph.
    - (* PRead *)
      case_eq (use_cache L fixed0); intro Euc.
      + destruct (find_entry value k (cache st)) as [e|] eqn:Ef.
        * assert (He : entry_ok (clock st) (trace st) k e)
            by (eapply find_entry_ok; [apply (i_cache _ Hinv)|exact Ef]).
          destruct He as (He1 & He2 & He3 & He4).
          destruct (expired value L e t) eqn:Eex.
          -- eapply (inv1_upd0 st tid th _ [] [] _ t Hinv Hclk Hth); try reflexivity; auto.
             ++ unfold thread_ok. cbn. lia.
          -- pose proof (not_expired_le e t Euc Eex) as Hle.
             destruct (e_res e) as [v|] eqn:Er.
             ++ eapply (inv1_upd0 st tid th _ [] [] _ t Hinv Hclk Hth); try reflexivity; auto.
                ** unfold thread_ok. cbn. fold k. repeat split; auto; lia.
             ++ destruct (is_pending k (pend st)).
                ** eapply (inv1_upd0 st tid th _ [] [] _ t Hinv Hclk Hth); try reflexivity; auto.
                   --- unfold thread_ok. cbn. fold k. repeat split; auto; lia.
                ** eapply (inv1_update st tid th _ [] [] [_] _ t Hinv Hclk Hth); try reflexivity; auto.
                   --- unfold thread_ok. cbn. fold k. repeat split; auto; lia.
                   --- constructor; [|constructor]. unfold thread_ok. cbn. lia.
        * eapply (inv1_upd0 st tid th _ [] [] _ t Hinv Hclk Hth); try reflexivity; auto.
          -- unfold thread_ok. cbn. lia.
      + eapply (inv1_upd0 st tid th _ [] [] _ t Hinv Hclk Hth); try reflexivity; auto.
        * unfold thread_ok. cbn. lia.
    - (* PLookup *)
      destruct (split k) as [[c g]|] eqn:Es.
      + pose proof (logged_here k t c g tid (trace st) Es) as Hlog.
        destruct (lookup t c g) as [d|] eqn:El;
          (eapply (inv1_upd0 st tid th _ [] [_] _ t Hinv Hclk Hth); try reflexivity; auto;
           [unfold thread_ok, with_phase; cbn [th_c th_g th_start th_ph]; fold k; cbn [phase_ok];
            unfold res_of; rewrite Es, El; (split; [reflexivity|split; [exact Hlog|split; lia]])
           |constructor; [exact I|constructor]]).
      + eapply (inv1_upd0 st tid th _ [] [] _ t Hinv Hclk Hth); try reflexivity; auto.
        * unfold thread_ok, with_phase. cbn. fold k. unfold res_of, logged. rewrite Es. repeat split; auto; lia.
    - (* PStoreGood *)
      destruct Hph as (H1 & H2 & H3 & H4).
      case_eq (use_cache L fixed0); intro Euc.
      + eapply (inv1_upd0 st tid th _ [_] [_] _ t Hinv Hclk Hth); try reflexivity; auto.
        * constructor; [|constructor]. cbn [fst snd]. unfold entry_ok. cbn [e_res e_snap e_created].
          repeat split; auto; try lia. apply (logged_mono _ _ _ [_]). exact H2.
        * unfold thread_ok, with_phase. cbn. fold k. repeat split; auto; try lia.
          apply (logged_mono _ _ _ [_]). exact H2.
        * constructor; [exact I|constructor].
      + eapply (inv1_upd0 st tid th _ [] [] _ t Hinv Hclk Hth); try reflexivity; auto.
        * unfold thread_ok, with_phase. cbn. fold k. repeat split; auto; lia.
    - (* PErrLoad *)
      destruct Hph as (H1 & H2 & H3 & H4).
      case_eq (use_cache L fixed0); intro Euc.
      + cbv zeta.
        assert (Hfresh : inv1 (mkState (cache st) (pend st)
                  (set_nth (threads st) tid (with_phase value th (PErrStore (mkEntry None t s O)))) (trace st) t (heap st))).
        { eapply (inv1_upd0 st tid th _ [] [] _ t Hinv Hclk Hth); try reflexivity; auto.
          - unfold thread_ok, with_phase. cbn. fold k. unfold entry_ok. cbn. repeat split; auto; lia. }
        destruct (find_entry value k (cache st)) as [e|] eqn:Ef; [|exact Hfresh].
        destruct (e_res e) as [v|] eqn:Er; [|exact Hfresh].
        destruct (expired value L e t) eqn:Eex; [exact Hfresh|].
        assert (He : entry_ok (clock st) (trace st) k e)
          by (eapply find_entry_ok; [apply (i_cache _ Hinv)|exact Ef]).
        destruct He as (He1 & He2 & He3 & He4).
        pose proof (not_expired_le e t Euc Eex) as Hle.
        eapply (inv1_upd0 st tid th _ [] [] _ t Hinv Hclk Hth); try reflexivity; auto.
        * unfold thread_ok, with_phase. cbn. fold k. rewrite <- Er. repeat split; auto; lia.
      + eapply (inv1_upd0 st tid th _ [] [] _ t Hinv Hclk Hth); try reflexivity; auto.
        * unfold thread_ok, with_phase. cbn. fold k. repeat split; auto; lia.
    - (* PErrStore *)
      destruct Hph as (H1 & (He1 & He2 & He3 & He4) & H3).
      eapply (inv1_upd0 st tid th _ [_] [_] _ t Hinv Hclk Hth); try reflexivity; auto.
      + constructor; [|constructor]. cbn [fst snd]. unfold entry_ok.
        repeat split; auto; try lia. apply (logged_mono _ _ _ [_]). exact He2.
      + unfold thread_ok, with_phase. cbn. fold k. rewrite <- H1. repeat split; auto; try lia.
        apply (logged_mono _ _ _ [_]). exact He2.
      + constructor; [exact I|constructor].
    - (* PReply *)
      destruct Hph as (H1 & H2 & H3 & H4 & H5 & H6 & H7).
      destruct (th_async th).
      + eapply (inv1_upd0 st tid th _ [] [] _ t Hinv Hclk Hth); try reflexivity; auto;
          try (unfold thread_ok, with_phase; cbn; exact I).
      + destruct (reply_names value th res) as [[rc rg] v] eqn:Ern.
        eapply (inv1_upd0 st tid th _ [] [_; _] _ t Hinv Hclk Hth); try reflexivity; auto;
          try (unfold thread_ok, with_phase; cbn; exact I).
        constructor; [|constructor; [exact I|constructor]]. cbn [reply_ok]. exists res. fold k.
        split; [exact H1|]. split; [rewrite <- Ern; reflexivity|].
        split; [apply (logged_mono _ _ _ [_; _]); exact H2|]. repeat split; lia.
    - (* PDone *)
      apply inv1_clock; assumption.
  Qed.

  Lemma init_inv1 : forall reqs, inv1 (init data value reqs).
  Proof.
    intros reqs. constructor; cbn [init cache threads trace clock]; auto.
    apply Forall_forall. intros th Hin. apply in_map_iff in Hin. destruct Hin as (cg & <- & _).
    unfold thread_ok. cbn. exact I.
  Qed.

  Notation runf := (run_from data value evalf filt_op lookup mk split L fixed0).

  Lemma run_from_inv1 : forall sched st, inv1 st -> inv1 (runf st sched).
  Proof.
    induction sched as [|x sched IH]; intros st H; cbn [run_from fold_left]; auto.
    apply IH. apply step_inv1. exact H.
  Qed.

  (* ------------------------------------------------------------------------------------------ *)
  (* Counting replies; which thread is which request                                               *)
  (* ------------------------------------------------------------------------------------------ *)

  Definition done_na (th : thread value) : bool :=
    match th_ph th with PDone => negb (th_async th) | _ => false end.

  Definition no_reply (ev : Event) : Prop :=
    match ev with EvReply _ _ _ _ _ _ _ _ _ _ _ => False | EvDeliver _ _ _ _ _ => False | _ => True end.

  Notation repl := (replies_of data value).

  Record inv2 (reqs : list (name * name * bool)) (st : State) : Prop := mkInv2 {
    i_req : forall i cg, nth_error reqs i = Some cg ->
            exists th, nth_error (threads st) i = Some th /\ (th_c th, th_g th, th_sa th) = cg /\ th_async th = false;
    i_asy : forall i th, nth_error (threads st) i = Some th -> (length reqs <= i)%nat -> th_async th = true;
    i_cnt : forall i, length (repl i (trace st)) =
                      match nth_error (threads st) i with
                      | Some th => if done_na th then 1%nat else 0%nat
                      | None => 0%nat
                      end;
    i_nam : forall tid t rc rg c g v s cr r start,
            In (EvReply tid t rc rg c g v s cr r start) (trace st) ->
            exists th, nth_error (threads st) tid = Some th /\ th_c th = rc /\ th_g th = rg /\ th_async th = false;
    i_dlv : forall tid t sa v dv,
            In (EvDeliver tid t sa v dv) (trace st) ->
            exists th, nth_error (threads st) tid = Some th /\ th_sa th = sa /\ th_async th = false }.

  Lemma repl_no_reply : forall evs tr i, Forall no_reply evs -> repl i (evs ++ tr) = repl i tr.
  Proof.
    induction evs as [|ev evs IH]; intros tr i H; [reflexivity|].
    inversion H as [|x y Hx Hy]; subst. cbn [app].
    destruct ev; cbn [no_reply] in Hx; [ | |contradiction|contradiction]; cbn [replies_of]; apply IH; exact Hy.
  Qed.

  Lemma nth_error_upd : forall (l : list (thread value)) tid th th' extra i,
    nth_error l tid = Some th ->
    nth_error (set_nth l tid th' ++ extra) i =
      if (i <? length l)%nat then (if Nat.eqb i tid then Some th' else nth_error l i)
      else nth_error extra (i - length l).
  Proof.
    intros l tid th th' extra i Hth.
    destruct (Nat.ltb_spec i (length l)) as [Hlt|Hge].
    - rewrite nth_error_app1 by (rewrite set_nth_length; exact Hlt).
      destruct (Nat.eqb_spec i tid) as [->|Hne].
      + eapply nth_error_set_nth_eq; eauto.
      + apply nth_error_set_nth_neq. congruence.
    - rewrite nth_error_app2 by (rewrite set_nth_length; exact Hge). rewrite set_nth_length. reflexivity.
  Qed.

  Lemma inv2_quiet : forall reqs st tid th th' extra c p evs t,
    inv2 reqs st -> nth_error (threads st) tid = Some th ->
    th_c th' = th_c th -> th_g th' = th_g th -> th_sa th' = th_sa th -> th_async th' = th_async th ->
    done_na th' = done_na th ->
    Forall (fun a => th_async a = true /\ done_na a = false) extra ->
    Forall no_reply evs ->
    forall h, inv2 reqs (mkState c p (set_nth (threads st) tid th' ++ extra) (evs ++ trace st) t h).
  Proof.
    intros reqs st tid th th' extra c p evs t [Hreq Hasy Hcnt Hnam Hdlv] Hth Hc Hg Hs Ha Hd Hex Hev h.
    assert (Hlt : (tid < length (threads st))%nat) by (apply nth_error_Some; congruence).
    constructor; cbn [cache threads trace clock].
    - intros i cg Hi. destruct (Hreq i cg Hi) as (th0 & H0 & H1 & H2).
      assert (Hil : (i < length (threads st))%nat) by (apply nth_error_Some; congruence).
      rewrite (nth_error_upd _ _ _ th' extra i Hth). apply Nat.ltb_lt in Hil. rewrite Hil.
      destruct (Nat.eqb_spec i tid) as [->|Hne].
      + exists th'. rewrite Hth in H0. inversion H0; subst th0. rewrite ?Hc, ?Hg, ?Hs, ?Ha. auto.
      + exists th0. auto.
    - intros i a Hi Hle. rewrite (nth_error_upd _ _ _ th' extra i Hth) in Hi.
      destruct (Nat.ltb_spec i (length (threads st))) as [Hil|Hge].
      + destruct (Nat.eqb_spec i tid) as [->|Hne].
        * inversion Hi; subst a. rewrite Ha. eapply Hasy; eauto.
        * eapply Hasy; eauto.
      + apply nth_error_In in Hi. rewrite Forall_forall in Hex. apply Hex in Hi. tauto.
    - intros i. rewrite repl_no_reply by exact Hev. rewrite Hcnt.
      rewrite (nth_error_upd _ _ _ th' extra i Hth).
      destruct (Nat.ltb_spec i (length (threads st))) as [Hil|Hge].
      + destruct (Nat.eqb_spec i tid) as [->|Hne]; [|reflexivity]. rewrite Hth, Hd. reflexivity.
      + assert (Hn : nth_error (threads st) i = None) by (apply nth_error_None; exact Hge). rewrite Hn.
        destruct (nth_error extra (i - length (threads st))) as [a|] eqn:Ea; [|reflexivity].
        apply nth_error_In in Ea. rewrite Forall_forall in Hex. apply Hex in Ea. destruct Ea as [_ Ea]. rewrite Ea. reflexivity.
    - intros tid0 t1 rc rg c0 g v s cr r start Hin.
      apply in_app_or in Hin. destruct Hin as [Hin|Hin].
      + rewrite Forall_forall in Hev. apply Hev in Hin. contradiction.
      + destruct (Hnam _ _ _ _ _ _ _ _ _ _ _ Hin) as (th0 & H0 & H1 & H2 & H3).
        assert (Hil : (tid0 < length (threads st))%nat) by (apply nth_error_Some; congruence).
        rewrite (nth_error_upd _ _ _ th' extra tid0 Hth). apply Nat.ltb_lt in Hil. rewrite Hil.
        destruct (Nat.eqb_spec tid0 tid) as [->|Hne].
        * exists th'. rewrite Hth in H0. inversion H0; subst th0. rewrite ?Hc, ?Hg, ?Hs, ?Ha. auto.
        * exists th0. auto.
    - intros tid0 t1 sa v dv Hin.
      apply in_app_or in Hin. destruct Hin as [Hin|Hin].
      + rewrite Forall_forall in Hev. apply Hev in Hin. contradiction.
      + destruct (Hdlv _ _ _ _ _ Hin) as (th0 & H0 & H1 & H2).
        assert (Hil : (tid0 < length (threads st))%nat) by (apply nth_error_Some; congruence).
        rewrite (nth_error_upd _ _ _ th' extra tid0 Hth). apply Nat.ltb_lt in Hil. rewrite Hil.
        destruct (Nat.eqb_spec tid0 tid) as [->|Hne].
        * exists th'. rewrite Hth in H0. inversion H0; subst th0. rewrite ?Hs, ?Ha. auto.
        * exists th0. auto.
  Qed.

  Lemma inv2_quiet0 : forall reqs st tid th th' c p evs t,
    inv2 reqs st -> nth_error (threads st) tid = Some th ->
    th_c th' = th_c th -> th_g th' = th_g th -> th_sa th' = th_sa th -> th_async th' = th_async th ->
    done_na th' = done_na th ->
    Forall no_reply evs ->
    forall h, inv2 reqs (mkState c p (set_nth (threads st) tid th') (evs ++ trace st) t h).
  Proof.
    intros. rewrite <- (app_nil_r (set_nth (threads st) tid th')). eapply inv2_quiet; eauto.
  Qed.

  Lemma inv2_reply : forall reqs st tid th th' c p t rc rg v s cr r start dv,
    inv2 reqs st -> nth_error (threads st) tid = Some th ->
    th_c th' = th_c th -> th_g th' = th_g th -> th_sa th' = th_sa th -> th_async th' = th_async th ->
    th_async th = false -> done_na th = false -> th_ph th' = PDone ->
    forall h, inv2 reqs (mkState c p (set_nth (threads st) tid th')
                       (EvReply tid t (th_c th) (th_g th) rc rg v s cr r start
                        :: EvDeliver tid t (th_sa th) v dv :: trace st) t h).
  Proof.
    intros reqs st tid th th' c p t rc rg v s cr r start dv [Hreq Hasy Hcnt Hnam Hdlv] Hth Hc Hg Hs Ha Hna Hd Hph h.
    assert (Hlt : (tid < length (threads st))%nat) by (apply nth_error_Some; congruence).
    assert (Hnth : forall i, nth_error (set_nth (threads st) tid th') i =
                             if Nat.eqb i tid then Some th' else nth_error (threads st) i).
    { intros i. destruct (Nat.eqb_spec i tid) as [->|Hne].
      - eapply nth_error_set_nth_eq; eauto.
      - apply nth_error_set_nth_neq. congruence. }
    constructor; cbn [cache threads trace clock].
    - intros i cg Hi. destruct (Hreq i cg Hi) as (th0 & H0 & H1 & H2). rewrite Hnth.
      destruct (Nat.eqb_spec i tid) as [->|Hne].
      + exists th'. rewrite Hth in H0. inversion H0; subst th0. rewrite ?Hc, ?Hg, ?Hs, ?Ha. auto.
      + exists th0. auto.
    - intros i a Hi Hle. rewrite Hnth in Hi. destruct (Nat.eqb_spec i tid) as [->|Hne].
      + inversion Hi; subst a. rewrite Ha. eapply Hasy; eauto.
      + eapply Hasy; eauto.
    - intros i. cbn [replies_of]. rewrite Hnth. rewrite Nat.eqb_sym.
      destruct (Nat.eqb_spec i tid) as [->|Hne].
      + cbn [length]. rewrite Hcnt, Hth, Hd. unfold done_na. rewrite Hph, Ha, Hna. reflexivity.
      + apply Hcnt.
    - intros tid0 t1 rc0 rg0 c0 g0 v0 s0 cr0 r0 start0 Hin. rewrite Hnth.
      destruct Hin as [Heq|Hin].
      + inversion Heq; subst. rewrite Nat.eqb_refl. exists th'. rewrite Ha. auto.
      + destruct Hin as [Heq|Hin]; [discriminate|].
        destruct (Hnam _ _ _ _ _ _ _ _ _ _ _ Hin) as (th0 & H0 & H1 & H2 & H3).
        destruct (Nat.eqb_spec tid0 tid) as [->|Hne].
        * exists th'. rewrite Hth in H0. inversion H0; subst th0. rewrite ?Hc, ?Hg, ?Hs, ?Ha. auto.
        * exists th0. auto.
    - intros tid0 t1 sa0 v0 dv0 Hin. rewrite Hnth.
      destruct Hin as [Heq|[Heq|Hin]]; [discriminate| |].
      + inversion Heq; subst. rewrite Nat.eqb_refl. exists th'. rewrite Hs, Ha. auto.
      + destruct (Hdlv _ _ _ _ _ Hin) as (th0 & H0 & H1 & H2).
        destruct (Nat.eqb_spec tid0 tid) as [->|Hne].
        * exists th'. rewrite Hth in H0. inversion H0; subst th0. rewrite Hs, Ha. auto.
        * exists th0. auto.
  Qed.

  Lemma inv2_clock : forall reqs st t, inv2 reqs st ->
    forall h, inv2 reqs (mkState (cache st) (pend st) (threads st) (trace st) t h).
  Proof. intros reqs st t [H1 H2 H3 H4 H5] h. constructor; assumption. Qed.

  Ltac dn Eph := unfold done_na, with_phase; cbn [th_ph th_async]; rewrite Eph; reflexivity.

  Lemma step_inv2 : forall reqs st tid t0, inv2 reqs st -> inv2 reqs (stepf st tid t0).
  Proof.
    clear HL Hcfg. intros reqs st tid t0 Hinv. unfold step.
    set (t := Z.max (clock st) t0).
    destruct (nth_error (threads st) tid) as [th|] eqn:Hth; [|apply inv2_clock; assumption].
    set (k := mk (th_c th) (th_g th)) in *.
    destruct (th_ph th) eqn:Eph.
    - (* PRead *)
      destruct (use_cache L fixed0).
      + destruct (find_entry value k (cache st)) as [e|].
        * destruct (expired value L e t).
          -- eapply (inv2_quiet0 _ st tid th _ _ _ [] t Hinv Hth); try reflexivity; [dn Eph|constructor].
          -- destruct (e_res e) as [v|].
             ++ eapply (inv2_quiet0 _ st tid th _ _ _ [] t Hinv Hth); try reflexivity; [dn Eph|constructor].
             ++ destruct (is_pending k (pend st)).
                ** eapply (inv2_quiet0 _ st tid th _ _ _ [] t Hinv Hth); try reflexivity; [dn Eph|constructor].
                ** eapply (inv2_quiet _ st tid th _ [_] _ _ [] t Hinv Hth); try reflexivity; [dn Eph| |constructor].
                   constructor; [|constructor]. split; reflexivity.
        * eapply (inv2_quiet0 _ st tid th _ _ _ [] t Hinv Hth); try reflexivity; [dn Eph|constructor].
      + eapply (inv2_quiet0 _ st tid th _ _ _ [] t Hinv Hth); try reflexivity; [dn Eph|constructor].
    - (* PLookup *)
      destruct (split k) as [[c g]|].
      + destruct (lookup t c g) as [d|];
          (eapply (inv2_quiet0 _ st tid th _ _ _ [_] t Hinv Hth); try reflexivity; [dn Eph|repeat constructor]).
      + eapply (inv2_quiet0 _ st tid th _ _ _ [] t Hinv Hth); try reflexivity; [dn Eph|constructor].
    - (* PStoreGood *)
      destruct (use_cache L fixed0).
      + eapply (inv2_quiet0 _ st tid th _ _ _ [_] t Hinv Hth); try reflexivity; [dn Eph|repeat constructor].
      + eapply (inv2_quiet0 _ st tid th _ _ _ [] t Hinv Hth); try reflexivity; [dn Eph|constructor].
    - (* PErrLoad *)
      destruct (use_cache L fixed0).
      + cbv zeta.
        assert (Hfresh : inv2 reqs (mkState (cache st) (pend st)
                  (set_nth (threads st) tid (with_phase value th (PErrStore (mkEntry None t s O)))) (trace st) t (heap st))).
        { eapply (inv2_quiet0 _ st tid th _ _ _ [] t Hinv Hth); try reflexivity; [dn Eph|constructor]. }
        destruct (find_entry value k (cache st)) as [e|]; [|exact Hfresh].
        destruct (e_res e) as [v|]; [|exact Hfresh].
        destruct (expired value L e t); [exact Hfresh|].
        eapply (inv2_quiet0 _ st tid th _ _ _ [] t Hinv Hth); try reflexivity; [dn Eph|constructor].
      + eapply (inv2_quiet0 _ st tid th _ _ _ [] t Hinv Hth); try reflexivity; [dn Eph|constructor].
    - (* PErrStore *)
      eapply (inv2_quiet0 _ st tid th _ _ _ [_] t Hinv Hth); try reflexivity; [dn Eph|repeat constructor].
    - (* PReply *)
      destruct (th_async th) eqn:Ea.
      + eapply (inv2_quiet0 _ st tid th _ _ _ [] t Hinv Hth); try reflexivity; [|constructor].
        unfold done_na, with_phase. cbn [th_ph th_async]. rewrite Eph, Ea. reflexivity.
      + destruct (reply_names value th res) as [[rc rg] v].
        eapply (inv2_reply _ st tid th); eauto. unfold done_na. rewrite Eph. reflexivity.
    - apply inv2_clock; assumption.
  Qed.

  Lemma init_inv2 : forall reqs, inv2 reqs (init data value reqs).
  Proof.
    intros reqs. constructor; cbn [init cache threads trace clock].
    - intros i cg Hi. exists (mkThread (fst (fst cg)) (snd (fst cg)) false (snd cg) 0 PRead).
      split; [|split; [destruct cg as [[? ?] ?]; reflexivity|reflexivity]].
      rewrite nth_error_map, Hi. reflexivity.
    - intros i th Hi Hle. rewrite nth_error_map in Hi.
      assert (Hn : nth_error reqs i = None) by (apply nth_error_None; exact Hle). rewrite Hn in Hi. discriminate.
    - intros i. cbn. rewrite nth_error_map. destruct (nth_error reqs i); reflexivity.
    - intros tid t rc rg c g v s cr r start [].
    - intros tid t sa v dv [].
  Qed.

  Lemma run_from_inv2 : forall reqs sched st, inv2 reqs st -> inv2 reqs (runf st sched).
  Proof.
    induction sched as [|x sched IH]; intros st H; cbn [run_from fold_left]; auto.
    apply IH. apply step_inv2. exact H.
  Qed.

  (* ------------------------------------------------------------------------------------------ *)
  (* Progress: no step blocks, every path reaches the reply in at most five steps                  *)
  (* ------------------------------------------------------------------------------------------ *)

  Definition fuel (ph : phase value) : nat :=
    match ph with
    | PRead => 5 | PLookup => 4 | PErrLoad _ => 3 | PStoreGood _ _ _ => 2 | PErrStore _ => 2
    | PReply _ _ _ _ _ => 1 | PDone => 0
    end.

  Definition fuel_at (st : State) (i : nat) : nat :=
    match nth_error (threads st) i with Some th => fuel (th_ph th) | None => 0 end.

  Lemma set_nth_same : forall A (l : list A) n x, nth_error l n = Some x -> set_nth l n x = l.
  Proof. induction l as [|y l IH]; intros [|n] x H; cbn in *; try discriminate; [congruence|f_equal; auto]. Qed.

  Ltac shape0 Hth Eph :=
    right; eexists; eexists; exists []; split; [reflexivity|]; split;
    [cbn [threads]; symmetry; apply app_nil_r|];
    left; unfold with_phase; cbn [th_ph]; rewrite Eph; cbn [fuel]; lia.

  Lemma step_threads : forall st tid t0,
    (nth_error (threads st) tid = None /\ threads (stepf st tid t0) = threads st) \/
    (exists th th' extra, nth_error (threads st) tid = Some th
       /\ threads (stepf st tid t0) = set_nth (threads st) tid th' ++ extra
       /\ ((fuel (th_ph th') < fuel (th_ph th))%nat \/ (th_ph th = PDone /\ th' = th))).
  Proof.
    clear HL Hcfg. intros st tid t0. unfold step.
    set (t := Z.max (clock st) t0).
    destruct (nth_error (threads st) tid) as [th|] eqn:Hth; [|left; split; reflexivity].
    set (k := mk (th_c th) (th_g th)) in *.
    destruct (th_ph th) eqn:Eph.
    - destruct (use_cache L fixed0).
      + destruct (find_entry value k (cache st)) as [e|].
        * destruct (expired value L e t); [shape0 Hth Eph|].
          destruct (e_res e) as [v|]; [shape0 Hth Eph|].
          destruct (is_pending k (pend st)); [shape0 Hth Eph|].
          right. eexists. eexists. eexists. split; [reflexivity|]. split; [cbn [threads]; reflexivity|].
          left. cbn [th_ph]. rewrite Eph. cbn [fuel]. lia.
        * shape0 Hth Eph.
      + shape0 Hth Eph.
    - destruct (split k) as [[c g]|]; [|shape0 Hth Eph].
      cbv zeta. destruct (lookup t c g); shape0 Hth Eph.
    - destruct (use_cache L fixed0); shape0 Hth Eph.
    - destruct (use_cache L fixed0); [|shape0 Hth Eph].
      cbv zeta. destruct (find_entry value k (cache st)) as [e|]; [|shape0 Hth Eph].
      destruct (e_res e) as [v|]; [|shape0 Hth Eph].
      destruct (expired value L e t); shape0 Hth Eph.
    - shape0 Hth Eph.
    - destruct (th_async th); [shape0 Hth Eph|].
      destruct (reply_names value th res) as [[rc rg] v]. shape0 Hth Eph.
    - right. exists th, th, []. split; [reflexivity|]. split.
      + cbn [threads]. rewrite app_nil_r. symmetry. apply set_nth_same. exact Hth.
      + right. split; [exact Eph|reflexivity].
  Qed.

  Lemma step_length : forall st tid t0, (length (threads st) <= length (threads (stepf st tid t0)))%nat.
  Proof.
    intros st tid t0. destruct (step_threads st tid t0) as [[_ ->]|(th & th' & extra & _ & -> & _)]; [lia|].
    rewrite app_length, set_nth_length. lia.
  Qed.

  Lemma step_fuel_other : forall st tid t0 i, i <> tid -> (i < length (threads st))%nat ->
    fuel_at (stepf st tid t0) i = fuel_at st i.
  Proof.
    intros st tid t0 i Hne Hlt. unfold fuel_at.
    destruct (step_threads st tid t0) as [[_ ->]|(th & th' & extra & Hth & -> & _)]; [reflexivity|].
    rewrite (nth_error_upd _ _ _ th' extra i Hth). apply Nat.ltb_lt in Hlt. rewrite Hlt.
    apply Nat.eqb_neq in Hne. rewrite Hne. reflexivity.
  Qed.

  Lemma step_fuel_same : forall st tid t0, (fuel_at (stepf st tid t0) tid <= pred (fuel_at st tid))%nat.
  Proof.
    intros st tid t0. unfold fuel_at.
    destruct (step_threads st tid t0) as [[Hn ->]|(th & th' & extra & Hth & -> & Hf)]; [rewrite Hn; lia|].
    rewrite (nth_error_upd _ _ _ th' extra tid Hth).
    assert (Hlt : (tid <? length (threads st))%nat = true) by (apply Nat.ltb_lt, nth_error_Some; congruence).
    rewrite Hlt, Nat.eqb_refl, Hth. destruct Hf as [Hf|[Hd ->]]; [lia|]. rewrite Hd. cbn. lia.
  Qed.

  Definition occ (i : nat) (sched : list (nat * Z)) : nat := count_occ Nat.eq_dec (map fst sched) i.

  Lemma run_fuel : forall sched st i, (i < length (threads st))%nat ->
    (fuel_at (runf st sched) i <= fuel_at st i - occ i sched)%nat.
  Proof.
    induction sched as [|[tid t0] sched IH]; intros st i Hlt; cbn [run_from fold_left]; [unfold occ; cbn; lia|].
    cbn [fst snd].
    assert (Hlt' : (i < length (threads (stepf st tid t0)))%nat) by (pose proof (step_length st tid t0); lia).
    specialize (IH (stepf st tid t0) i Hlt'). fold (runf (stepf st tid t0) sched).
    unfold occ in *. cbn [map fst count_occ]. destruct (Nat.eq_dec tid i) as [->|Hne].
    - pose proof (step_fuel_same st i t0). lia.
    - rewrite step_fuel_other in IH by auto. lia.
  Qed.

  (* ------------------------------------------------------------------------------------------ *)
  (* The theorems                                                                                  *)
  (* ------------------------------------------------------------------------------------------ *)

  Notation runr := (run data value evalf filt_op lookup mk split L fixed0).

  (* every request is answered at most once in every schedule, and exactly once as soon as its goroutine has been
     scheduled five times (no step of the request can block: storage answers); nothing else is ever answered *)
  Theorem one_reply : forall reqs sched i,
    (length (repl i (trace (runr reqs sched))) <= 1)%nat
    /\ ((i < length reqs)%nat -> (5 <= occ i sched)%nat -> length (repl i (trace (runr reqs sched))) = 1%nat)
    /\ ((length reqs <= i)%nat -> repl i (trace (runr reqs sched)) = []).
  Proof.
    intros reqs sched i. unfold run.
    pose proof (run_from_inv2 reqs sched _ (init_inv2 reqs)) as Hinv.
    set (st := runf (init data value reqs) sched) in *.
    pose proof (i_cnt _ _ Hinv i) as Hc.
    split; [|split].
    - rewrite Hc. destruct (nth_error (threads st) i) as [th|]; [destruct (done_na th)|]; lia.
    - intros Hlt Hocc.
      destruct (nth_error reqs i) as [cg|] eqn:Hr; [|apply nth_error_None in Hr; lia].
      destruct (i_req _ _ Hinv i cg Hr) as (th & Hth & _ & Ha).
      assert (Hl0 : (i < length (threads (init data value reqs)))%nat) by (cbn; rewrite map_length; exact Hlt).
      pose proof (run_fuel sched _ i Hl0) as Hf. fold st in Hf.
      assert (Hf0 : fuel_at (init data value reqs) i = 5%nat).
      { unfold fuel_at. cbn [init threads]. rewrite nth_error_map, Hr. reflexivity. }
      rewrite Hf0 in Hf. unfold fuel_at in Hf. rewrite Hth in Hf.
      rewrite Hc, Hth. unfold done_na. rewrite Ha. destruct (th_ph th); cbn [fuel] in Hf; try lia. reflexivity.
    - intros Hge. apply length_zero_iff_nil. rewrite Hc.
      destruct (nth_error (threads st) i) as [th|] eqn:Hth; [|reflexivity].
      pose proof (i_asy _ _ Hinv i th Hth Hge) as Ha. unfold done_na. rewrite Ha. destruct (th_ph th); reflexivity.
  Qed.

  (* every reply: it answers request tid, and is what evaluateConsumerStatus made of the key at a storage time s whose
     fetch is in the trace, created at cr >= s, still valid (r <= cr + L) at a moment r within the request *)
  Theorem reply_sound : forall reqs sched tid t rc rg c g v s cr r start,
    In (EvReply tid t rc rg c g v s cr r start) (trace (runr reqs sched)) ->
    (exists sa, nth_error reqs tid = Some (rc, rg, sa))
    /\ (c, g, v) = names_of rc rg (res_of (mk rc rg) s)
    /\ logged (mk rc rg) s (trace (runr reqs sched))
    /\ s <= cr /\ r <= cr + L /\ start <= r /\ r <= t /\ cr <= t.
  Proof.
    intros reqs sched tid t rc rg c g v s cr r start Hin. unfold run in *.
    pose proof (run_from_inv2 reqs sched _ (init_inv2 reqs)) as Hinv2.
    pose proof (run_from_inv1 sched _ (init_inv1 reqs)) as Hinv1.
    set (st := runf (init data value reqs) sched) in *.
    split.
    - destruct (i_nam _ _ Hinv2 _ _ _ _ _ _ _ _ _ _ _ Hin) as (th & Hth & Hc & Hg & Ha).
      destruct (Nat.lt_ge_cases tid (length reqs)) as [Hlt|Hge].
      + destruct (nth_error reqs tid) as [cg|] eqn:Hr; [|apply nth_error_None in Hr; lia].
        destruct (i_req _ _ Hinv2 tid cg Hr) as (th0 & Hth0 & Hcg & _).
        rewrite Hth in Hth0. inversion Hth0; subst th0. exists (th_sa th). rewrite <- Hcg, Hc, Hg. reflexivity.
      + pose proof (i_asy _ _ Hinv2 tid th Hth Hge). congruence.
    - pose proof (i_trace _ Hinv1) as Htr. rewrite Forall_forall in Htr. specialize (Htr _ Hin).
      cbn [reply_ok] in Htr. destruct Htr as (res & -> & H2 & H3 & H4 & H5 & H6 & H7 & H8). tauto.
  Qed.

  (* the same, read for a request whose key splits back into its own names *)
  Theorem reply_meaning : forall reqs sched tid t rc rg c g v s cr r start,
    In (EvReply tid t rc rg c g v s cr r start) (trace (runr reqs sched)) ->
    split (mk rc rg) = Some (rc, rg) ->
    (exists sa, nth_error reqs tid = Some (rc, rg, sa))
    /\ c = rc /\ g = rg
    /\ v = option_map (evalf s) (lookup s rc rg)
    /\ (exists tid', In (EvLookup tid' s rc rg (lookup s rc rg)) (trace (runr reqs sched)))
    /\ s <= cr /\ r <= cr + L /\ start <= r /\ r <= t /\ cr <= t.
  Proof.
    intros reqs sched tid t rc rg c g v s cr r start Hin Hsp.
    destruct (reply_sound _ _ _ _ _ _ _ _ _ _ _ _ _ Hin) as (H1 & H2 & H3 & H4).
    unfold res_of, logged in *. rewrite Hsp in *.
    split; [exact H1|].
    destruct (lookup s rc rg) as [d|]; cbn [names_of option_map] in *; inversion H2; subst; repeat split; tauto.
  Qed.

  (* ------------------------------------------------------------------------------------------ *)
  (* The object heap: as long as the filtered view copies, every cached object stays what            *)
  (* evaluateConsumerStatus made it, and every requester is handed the view of exactly that          *)
  (* ------------------------------------------------------------------------------------------ *)

  Definition heap_ok (h : list value) (res : option (cval value)) (a : nat) : Prop :=
    match res with None => True | Some (_, _, v) => nth_error h a = Some v end.

  Definition th_heap_ok (h : list value) (th : thread value) : Prop :=
    match th_ph th with
    | PStoreGood v _ a => heap_ok h (Some v) a
    | PErrStore e => heap_ok h (e_res e) (e_addr e)
    | PReply res _ _ _ a => heap_ok h res a
    | _ => True
    end.

  Definition deliver_ok (tr : list Event) (ev : Event) : Prop :=
    match ev with
    | EvDeliver tid t sa v dv =>
        dv = option_map (view value filt sa) v
        /\ exists rc rg c g s cr r start, In (EvReply tid t rc rg c g v s cr r start) tr
    | _ => True
    end.

  Lemma deliver_ok_mono : forall tr evs ev, deliver_ok tr ev -> deliver_ok (evs ++ tr) ev.
  Proof.
    intros tr evs ev H. destruct ev; cbn [deliver_ok] in *; auto.
    destruct H as (H1 & rc & rg & c & g & s & cr & r & start & H2). split; [exact H1|].
    exists rc, rg, c, g, s, cr, r, start. apply in_or_app. right. exact H2.
  Qed.

  Record inv3 (st : State) : Prop := mkInv3 {
    h_cache : Forall (fun ke => heap_ok (heap st) (e_res (snd ke)) (e_addr (snd ke))) (cache st);
    h_threads : Forall (th_heap_ok (heap st)) (threads st);
    h_trace : Forall (deliver_ok (trace st)) (trace st) }.

  Lemma heap_ok_ext : forall h ext res a, heap_ok h res a -> heap_ok (h ++ ext) res a.
  Proof.
    intros h ext [[[c g] v]|] a H; cbn [heap_ok] in *; auto.
    rewrite nth_error_app1; auto. apply nth_error_Some. congruence.
  Qed.

  Lemma th_heap_ok_ext : forall h ext th, th_heap_ok h th -> th_heap_ok (h ++ ext) th.
  Proof. intros h ext th H. unfold th_heap_ok in *. destruct (th_ph th); auto using heap_ok_ext. Qed.

  Lemma inv3_update : forall st tid th' newc evs extra ext p t,
    inv3 st ->
    Forall (fun ke => heap_ok (heap st ++ ext) (e_res (snd ke)) (e_addr (snd ke))) newc ->
    th_heap_ok (heap st ++ ext) th' ->
    Forall (th_heap_ok (heap st ++ ext)) extra ->
    Forall (deliver_ok (evs ++ trace st)) evs ->
    inv3 (mkState (newc ++ cache st) p (set_nth (threads st) tid th' ++ extra) (evs ++ trace st) t (heap st ++ ext)).
  Proof.
    intros st tid th' newc evs extra ext p t [Hc Ht Hr] Hnew Hth' Hex Hev.
    constructor; cbn [cache threads trace heap].
    - apply Forall_app. split; [exact Hnew|]. eapply Forall_impl; [|exact Hc]. intros ke H. apply heap_ok_ext. exact H.
    - apply Forall_app. split; [|exact Hex]. apply Forall_set_nth; [|exact Hth'].
      eapply Forall_impl; [|exact Ht]. intros th H. apply th_heap_ok_ext. exact H.
    - apply Forall_app. split; [exact Hev|]. eapply Forall_impl; [|exact Hr]. intros ev H. apply deliver_ok_mono. exact H.
  Qed.

  Lemma inv3_upd0 : forall st tid th' newc evs p t,
    inv3 st ->
    Forall (fun ke => heap_ok (heap st) (e_res (snd ke)) (e_addr (snd ke))) newc ->
    th_heap_ok (heap st) th' ->
    Forall (deliver_ok (evs ++ trace st)) evs ->
    inv3 (mkState (newc ++ cache st) p (set_nth (threads st) tid th') (evs ++ trace st) t (heap st)).
  Proof.
    intros st tid th' newc evs p t Hinv Hnew Hth' Hev.
    pose proof (inv3_update st tid th' newc evs [] [] p t Hinv) as H.
    rewrite !app_nil_r in H. apply H; auto.
  Qed.

  Lemma inv3_clock : forall st t, inv3 st -> inv3 (mkState (cache st) (pend st) (threads st) (trace st) t (heap st)).
  Proof. intros st t [H1 H2 H3]. constructor; assumption. Qed.

  Lemma find_entry_heap_ok : forall h k m e,
    Forall (fun ke : key * entry value => heap_ok h (e_res (snd ke)) (e_addr (snd ke))) m ->
    find_entry value k m = Some e -> heap_ok h (e_res e) (e_addr e).
  Proof.
    induction m as [|[k' e'] m IH]; intros e Hm Hf; cbn [find_entry] in Hf; [discriminate|].
    inversion Hm as [|x y Hx Hy]; subst. destruct (bytes_eqb k k'); [inversion Hf; subst; exact Hx|auto].
  Qed.

  Definition res_val (res : option (cval value)) : option value :=
    match res with None => None | Some (_, _, v) => Some v end.

  Lemma reply_names_val : forall th res, snd (reply_names value th res) = res_val res.
  Proof. intros th [[[c g] v]|]; reflexivity. Qed.

  (* the code's filtered view copies *)
  Hypothesis Hpure : forall v, filt_op v = (v, filt v).

  Lemma deliver_pure : forall h sa res a, heap_ok h res a ->
    deliver value filt_op h sa res a = (h, option_map (view value filt sa) (res_val res)).
  Proof.
    intros h sa [[[c g] v]|] a H; cbn [deliver heap_ok res_val option_map] in *; [|reflexivity].
    assert (Hn : nth a h v = v) by (apply nth_error_nth; exact H). rewrite Hn.
    destruct sa; cbn [view]; [reflexivity|]. rewrite Hpure. cbn [fst snd].
    rewrite (set_nth_same _ _ _ _ H). reflexivity.
  Qed.

  Lemma step_inv3 : forall st tid t0, inv3 st -> inv3 (stepf st tid t0).
  Proof.
    clear HL Hcfg. intros st tid t0 Hinv. unfold step.
    set (t := Z.max (clock st) t0).
    destruct (nth_error (threads st) tid) as [th|] eqn:Hth; [|apply inv3_clock; assumption].
    assert (Hph : th_heap_ok (heap st) th) by (eapply nth_error_Forall; [apply (h_threads _ Hinv)|exact Hth]).
    unfold th_heap_ok in Hph.
    set (k := mk (th_c th) (th_g th)) in *.
    destruct (th_ph th) eqn:Eph.
    - (* PRead *)
      destruct (use_cache L fixed0); [|apply (inv3_upd0 st tid _ [] []); auto; exact I].
      destruct (find_entry value k (cache st)) as [e|] eqn:Ef; [|apply (inv3_upd0 st tid _ [] []); auto; exact I].
      pose proof (find_entry_heap_ok _ _ _ _ (h_cache _ Hinv) Ef) as He.
      destruct (expired value L e t); [apply (inv3_upd0 st tid _ [] []); auto; exact I|].
      destruct (e_res e) as [v|] eqn:Er; [apply (inv3_upd0 st tid _ [] []); auto; exact He|].
      destruct (is_pending k (pend st)); [apply (inv3_upd0 st tid _ [] []); auto; exact I|].
      rewrite <- (app_nil_r (heap st)). apply (inv3_update st tid _ [] [] [_] []); auto; try exact I;
        try (constructor; [exact I|constructor]).
    - (* PLookup *)
      destruct (split k) as [[c g]|]; [|apply (inv3_upd0 st tid _ [] []); auto; exact I].
      destruct (lookup t c g) as [d|].
      + rewrite <- (app_nil_r (set_nth (threads st) tid _)).
        apply (inv3_update st tid _ [] [_] [] [_]); auto; try (constructor; [exact I|constructor]).
        unfold th_heap_ok, with_phase. cbn [th_ph heap_ok].
        rewrite nth_error_app2 by lia. rewrite Nat.sub_diag. reflexivity.
      + apply (inv3_upd0 st tid _ [] [_]); auto; try exact I; try (constructor; [exact I|constructor]).
    - (* PStoreGood *)
      destruct (use_cache L fixed0).
      + apply (inv3_upd0 st tid _ [_] [_]); auto; try (constructor; [exact I|constructor]);
          try (constructor; [exact Hph|constructor]).
      + apply (inv3_upd0 st tid _ [] []); auto.
    - (* PErrLoad *)
      destruct (use_cache L fixed0); [|apply (inv3_upd0 st tid _ [] []); auto; exact I].
      cbv zeta.
      assert (Hfresh : inv3 (mkState (cache st) (pend st)
                (set_nth (threads st) tid (with_phase value th (PErrStore (mkEntry None t s O)))) (trace st) t (heap st)))
        by (apply (inv3_upd0 st tid _ [] []); auto; exact I).
      destruct (find_entry value k (cache st)) as [e|] eqn:Ef; [|exact Hfresh].
      pose proof (find_entry_heap_ok _ _ _ _ (h_cache _ Hinv) Ef) as He.
      destruct (e_res e) as [v|] eqn:Er; [|exact Hfresh].
      destruct (expired value L e t); [exact Hfresh|].
      apply (inv3_upd0 st tid _ [] []); auto; try exact He.
    - (* PErrStore *)
      apply (inv3_upd0 st tid _ [_] [_]); auto; try exact I; try (constructor; [exact I|constructor]);
        try (constructor; [exact Hph|constructor]).
    - (* PReply *)
      destruct (th_async th); [apply (inv3_upd0 st tid _ [] []); auto; exact I|].
      rewrite (deliver_pure _ (th_sa th) res a Hph). cbn [fst snd].
      pose proof (reply_names_val th res) as Hv.
      destruct (reply_names value th res) as [[rc rg] v]. cbn [snd] in Hv. subst v.
      apply (inv3_upd0 st tid _ [] [_; _]); auto; try exact I.
      constructor; [exact I|constructor; [|constructor]]. split; [reflexivity|]. repeat eexists. left. reflexivity.
    - apply inv3_clock; assumption.
  Qed.

  Lemma init_inv3 : forall reqs, inv3 (init data value reqs).
  Proof.
    intros reqs. constructor; cbn [init cache threads trace heap]; auto.
    apply Forall_forall. intros th Hin. apply in_map_iff in Hin. destruct Hin as (q & <- & _). exact I.
  Qed.

  Lemma run_from_inv3 : forall sched st, inv3 st -> inv3 (runf st sched).
  Proof.
    induction sched as [|x sched IH]; intros st H; cbn [run_from fold_left]; auto.
    apply IH. apply step_inv3. exact H.
  Qed.

  (* every requester is handed the view it asked for of exactly the status Query returned to it (the value of the
     EvReply event of the same step), whatever was served -- filtered or not -- to whom before, and every object in
     the cache is still what evaluateConsumerStatus made it *)
  Theorem delivered_is_view : forall reqs sched tid t sa v dv,
    In (EvDeliver tid t sa v dv) (trace (runr reqs sched)) ->
    dv = option_map (view value filt sa) v
    /\ (exists rc rg c g s cr r start, In (EvReply tid t rc rg c g v s cr r start) (trace (runr reqs sched)))
    /\ (exists rc rg, nth_error reqs tid = Some (rc, rg, sa)).
  Proof.
    intros reqs sched tid t sa v dv Hin. unfold run in *.
    pose proof (h_trace _ (run_from_inv3 sched _ (init_inv3 reqs))) as H.
    pose proof (run_from_inv2 reqs sched _ (init_inv2 reqs)) as Hinv2.
    set (st := runf (init data value reqs) sched) in *.
    rewrite Forall_forall in H. destruct (H _ Hin) as [H1 H2]. split; [exact H1|split; [exact H2|]].
    destruct (i_dlv _ _ Hinv2 _ _ _ _ _ Hin) as (th & Hth & Hs & Ha).
    destruct (Nat.lt_ge_cases tid (length reqs)) as [Hlt|Hge].
    - destruct (nth_error reqs tid) as [[[rc rg] sa']|] eqn:Hr; [|apply nth_error_None in Hr; lia].
      destruct (i_req _ _ Hinv2 tid _ Hr) as (th0 & Hth0 & Hcg & _).
      rewrite Hth in Hth0. inversion Hth0; subst th0. inversion Hcg; subst. exists (th_c th), (th_g th). reflexivity.
    - pose proof (i_asy _ _ Hinv2 tid th Hth Hge). congruence.
  Qed.
End Proofs.

(* ---------------------------------------------------------------------------------------------- *)
(* The statements of props/C05.v                                                                    *)
(* ---------------------------------------------------------------------------------------------- *)

Definition cfg_ok (L : Z) (fixed0 : bool) : Prop := 0 <= L /\ (use_cache L fixed0 = true -> 0 < L).

Lemma cfg_ok_repaired : forall L, 0 <= L -> cfg_ok L true.
Proof.
  intros L HL. split; [exact HL|]. unfold use_cache. cbn. intro H. apply Z.ltb_lt in H. exact H.
Qed.

Section Statements.
  Variables data value : Type.
  Variable evalf : Z -> data -> value.
  Variable filt : value -> value.
  Variable lookup : Z -> name -> name -> option data.
  Variable L : Z.
  Variable fixed0 : bool.

  Notation tr_of reqs sched := (trace (run data value evalf (pure_op filt) lookup mk_key split_key L fixed0 reqs sched)).
  Notation repl := (replies_of data value).

  Theorem one_reply_named : forall reqs sched i,
    cfg_ok L fixed0 ->
    (length (repl i (tr_of reqs sched)) <= 1)%nat
    /\ ((i < length reqs)%nat -> (5 <= occ i sched)%nat -> length (repl i (tr_of reqs sched)) = 1%nat)
    /\ ((length reqs <= i)%nat -> repl i (tr_of reqs sched) = [])
    /\ (forall t rc rg c g v s cr r start,
          In (EvReply i t rc rg c g v s cr r start) (tr_of reqs sched) ->
          (exists sa, nth_error reqs i = Some (rc, rg, sa)) /\ c = rc /\ g = rg).
  Proof.
    intros reqs sched i [HL Hc].
    destruct (one_reply data value evalf (pure_op filt) lookup mk_key split_key L fixed0 reqs sched i) as (H1 & H2 & H3).
    repeat split; auto;
      destruct (reply_meaning data value evalf (pure_op filt) lookup mk_key split_key L fixed0 HL Hc _ _ _ _ _ _ _ _ _ _ _ _ _ H
                              (split_mk_key rc rg)) as (Ha & Hb & Hd & _); assumption.
  Qed.

  Theorem staleness_bound : forall reqs sched i t rc rg c g v s cr r start,
    cfg_ok L fixed0 ->
    In (EvReply i t rc rg c g v s cr r start) (tr_of reqs sched) ->
    v = option_map (evalf s) (lookup s rc rg)
    /\ (exists tid, In (EvLookup tid s rc rg (lookup s rc rg)) (tr_of reqs sched))
    /\ s <= cr /\ cr <= t /\ start <= r /\ r <= t /\ r - s <= L + (cr - s).
  Proof.
    intros reqs sched i t rc rg c g v s cr r start [HL Hc] Hin.
    destruct (reply_meaning data value evalf (pure_op filt) lookup mk_key split_key L fixed0 HL Hc _ _ _ _ _ _ _ _ _ _ _ _ _ Hin
                            (split_mk_key rc rg)) as (_ & _ & _ & Hv & Hl & H1 & H2 & H3 & H4 & H5).
    repeat split; auto; lia.
  Qed.

  (* the reading the observation oracle enforces: a request issued at qt (before its first step) whose reply came from a
     fetch evaluated within slack (fetch to store) reflects storage no older than L + slack at the time of the request *)
  Theorem delivery_age_bound : forall reqs sched i t rc rg c g v s cr r start qt slack,
    cfg_ok L fixed0 ->
    In (EvReply i t rc rg c g v s cr r start) (tr_of reqs sched) ->
    qt <= start -> cr - s <= slack ->
    qt - s <= L + slack /\ s <= t.
  Proof.
    intros reqs sched i t rc rg c g v s cr r start qt slack Hcfg Hin Hq Hs.
    destruct (staleness_bound _ _ _ _ _ _ _ _ _ _ _ _ _ Hcfg Hin) as (_ & _ & H1 & H2 & H3 & H4 & H5). lia.
  Qed.

  Theorem notfound_iff : forall reqs sched i t rc rg c g v s cr r start,
    cfg_ok L fixed0 ->
    In (EvReply i t rc rg c g v s cr r start) (tr_of reqs sched) ->
    (v = None <-> lookup s rc rg = None).
  Proof.
    intros reqs sched i t rc rg c g v s cr r start Hcfg Hin.
    destruct (staleness_bound _ _ _ _ _ _ _ _ _ _ _ _ _ Hcfg Hin) as (Hv & _).
    rewrite Hv. destruct (lookup s rc rg); cbn; split; intro H; congruence.
  Qed.

  Theorem not_shared : forall reqs sched i t rc rg c g v s cr r start j t' rc' rg' c' g' v' s' cr' r' start',
    cfg_ok L fixed0 ->
    In (EvReply i t rc rg c g v s cr r start) (tr_of reqs sched) ->
    In (EvReply j t' rc' rg' c' g' v' s' cr' r' start') (tr_of reqs sched) ->
    (rc, rg) <> (rc', rg') ->
    mk_key rc rg <> mk_key rc' rg'
    /\ (c, g) = (rc, rg) /\ v = option_map (evalf s) (lookup s rc rg)
    /\ (c', g') = (rc', rg') /\ v' = option_map (evalf s') (lookup s' rc' rg').
  Proof.
    intros reqs sched i t rc rg c g v s cr r start j t' rc' rg' c' g' v' s' cr' r' start' [HL Hc] H1 H2 Hne.
    destruct (reply_meaning data value evalf (pure_op filt) lookup mk_key split_key L fixed0 HL Hc _ _ _ _ _ _ _ _ _ _ _ _ _ H1
                            (split_mk_key rc rg)) as (_ & -> & -> & Hv & _).
    destruct (reply_meaning data value evalf (pure_op filt) lookup mk_key split_key L fixed0 HL Hc _ _ _ _ _ _ _ _ _ _ _ _ _ H2
                            (split_mk_key rc' rg')) as (_ & -> & -> & Hv' & _).
    repeat split; auto. intro Hk. apply key_injective in Hk. destruct Hk; subst. apply Hne. reflexivity.
  Qed.

  (* serving a filtered view never changes what later requests see: in every schedule every requester -- whoever was
     served what before, filtered or not -- is handed exactly the view it asked for (sa is its own ShowAll flag) of the
     status v that Query returned to it (the v of its EvReply event, which staleness_bound / notfound_iff describe);
     in particular a later full view is the untouched evaluation.  NOT by construction: the full view hands out the
     cached object itself and the filtered view is an operation on that shared object (Cache.deliver on the heap); this
     is the statement for the code's operation pure_op filt, which copies.  See filtered_aliasing_refuted. *)
  Theorem filtered_does_not_disturb : forall reqs sched i t sa v dv,
    In (EvDeliver i t sa v dv) (tr_of reqs sched) ->
    dv = option_map (view value filt sa) v
    /\ (exists rc rg c g s cr r start, In (EvReply i t rc rg c g v s cr r start) (tr_of reqs sched))
    /\ (exists rc rg, nth_error reqs i = Some (rc, rg, sa)).
  Proof.
    intros reqs sched i t sa v dv Hin.
    exact (delivered_is_view data value evalf filt (pure_op filt) lookup mk_key split_key L fixed0
                             (fun v => eq_refl) reqs sched i t sa v dv Hin).
  Qed.
End Statements.

(* ---- the unrepaired code (documentation of the two defects repaired in /repo) ---- *)

Definition wit_lookup1 (t : Z) (c g : name) : option Z :=
  if bytes_eqb c [97] && bytes_eqb g [98; 32; 99] then Some 7 else None.

(* old key: the request for cluster "a b", group "c" is answered with cluster "a", group "b c" and that group's data *)
Theorem names_shared_old_refuted :
  exists reqs sched,
    hd_error (trace (run Z Z (fun _ d => d) (pure_op (fun v => v)) wit_lookup1 mk_key_old split_key_old 10 true reqs sched))
    = Some (EvReply 0 4 [97; 32; 98] [99] [97] [98; 32; 99] (Some 7) 2 3 3 1)
    /\ wit_lookup1 2 [97; 32; 98] [99] = None.
Proof.
  exists [([97; 32; 98], [99], true)], [(0%nat, 1); (0%nat, 2); (0%nat, 3); (0%nat, 4)]. split; vm_compute; reflexivity.
Qed.

Definition wit_lookup2 (t : Z) (c g : name) : option Z := if t <? 100 then Some 7 else None.

(* expire-cache = 0 before the repair (fixed0 = false): a result fetched at 2 is served at 1000, lifetime 0 *)
Theorem zero_lifetime_old_refuted :
  exists reqs sched,
    hd_error (trace (run Z Z (fun _ d => d) (pure_op (fun v => v)) wit_lookup2 mk_key split_key 0 false reqs sched))
    = Some (EvReply 1 1001 [97] [103] [97] [103] (Some 7) 2 3 1000 1000)
    /\ wit_lookup2 1000 [97] [103] = None.
Proof.
  exists [([97], [103], true); ([97], [103], true)],
         [(0%nat, 1); (0%nat, 2); (0%nat, 3); (0%nat, 4); (1%nat, 1000); (1%nat, 1001); (1%nat, 1002); (1%nat, 1003)].
  split; vm_compute; reflexivity.
Qed.

(* ---- what "reply objects unchanged afterwards" in the probe guards against ---- *)

(* statuses as lists of partition statuses; the problems-only view keeps those above 1 (OK) *)
Definition wit_filt (v : list Z) : list Z := filter (fun x => 1 <? x) v.
(* a filtered view built in place (status.Partitions = cachedStatus.Partitions[:0]; append ...): the cached object is
   left holding the filtered list *)
Definition wit_alias_op (v : list Z) : list Z * list Z := (wit_filt v, wit_filt v).
Definition wit_lookup3 (t : Z) (c g : name) : option (list Z) := Some [1; 3].

(* with the aliasing operation, request 0 (filtered) is served, then request 1 (full view, same group, served from the
   cache): Query returns the evaluation [1; 3] to it, but the object it is handed holds [3] *)
Theorem filtered_aliasing_refuted :
  exists reqs sched,
    nth_error (trace (run (list Z) (list Z) (fun _ d => d) wit_alias_op wit_lookup3 mk_key split_key 10 true reqs sched)) 1
    = Some (EvDeliver 1 6 true (Some [1; 3]) (Some [3]))
    /\ Some [3] <> option_map (view (list Z) wit_filt true) (Some [1; 3])
    /\ nth_error (trace (run (list Z) (list Z) (fun _ d => d) (pure_op wit_filt) wit_lookup3 mk_key split_key 10 true reqs sched)) 1
       = Some (EvDeliver 1 6 true (Some [1; 3]) (Some [1; 3])).
Proof.
  exists [([97], [103], false); ([97], [103], true)],
         [(0%nat, 1); (0%nat, 2); (0%nat, 3); (0%nat, 4); (1%nat, 5); (1%nat, 6)].
  split; [vm_compute; reflexivity|]. split; [vm_compute; discriminate|vm_compute; reflexivity].
Qed.

(* ---------------------------------------------------------------------------------------------- *)
(* The observation oracle Cache.check_obs holds of every complete run of the model                  *)
(* ---------------------------------------------------------------------------------------------- *)
Section Oracle.
  Variables data value : Type.
  Variable evalf : Z -> data -> value.
  Variable filt : value -> value.
  Variable lookup : Z -> name -> name -> option data.
  Variable L : Z.
  Variable fixed0 : bool.
  Variable value_eqb : value -> value -> bool.
  Hypothesis value_eqb_refl : forall v, value_eqb v v = true.

  Notation Event := (event data value).

  Notation obs_looks := (obs_looks data value).
  Notation obs_reps := (obs_reps data value filt).

  Lemma obs_looks_in : forall tr tid t c g x, In (EvLookup tid t c g x) tr -> In (mkOlook data t c g x) (obs_looks tr).
  Proof.
    induction tr as [|ev tr IH]; intros tid t c g x Hin; [contradiction|].
    destruct Hin as [->|Hin]; [left; reflexivity|].
    destruct ev; cbn [obs_looks]; try right; eauto.
  Qed.

  Lemma filter_obs_reps : forall qs tr i,
    filter (fun r => Nat.eqb (r_i value r) i) (obs_reps qs tr) = obs_reps qs (replies_of data value i tr).
  Proof.
    induction tr as [|ev tr IH]; intros i; [reflexivity|].
    destruct ev; cbn [obs_reps replies_of]; auto.
    cbn [filter r_i]. destruct (Nat.eqb tid i); cbn [obs_reps]; rewrite IH; reflexivity.
  Qed.

  Lemma replies_of_in : forall tr i ev, In ev (replies_of data value i tr) ->
    In ev tr /\ exists t rc rg c g v s cr r start, ev = EvReply i t rc rg c g v s cr r start.
  Proof.
    induction tr as [|e tr IH]; intros i ev Hin; [contradiction|].
    destruct e; cbn [replies_of] in Hin; try (destruct (IH _ _ Hin) as [H1 H2]; split; [right; exact H1|exact H2]).
    destruct (Nat.eqb_spec tid i) as [->|Hne].
    - destruct Hin as [<-|Hin].
      + split; [left; reflexivity|]. repeat eexists.
      + destruct (IH _ _ Hin) as [H1 H2]. split; [right; exact H1|exact H2].
    - destruct (IH _ _ Hin) as [H1 H2]. split; [right; exact H1|exact H2].
  Qed.

  Lemma bytes_eqb_refl : forall a, bytes_eqb a a = true.
  Proof. intros a. apply bytes_eqb_eq. reflexivity. Qed.

  Theorem check_obs_sound : forall (qs : list oreq) sched slack,
    cfg_ok L fixed0 ->
    let tr := trace (run data value evalf (pure_op filt) lookup mk_key split_key L fixed0 (map (fun q => (q_c q, q_g q, q_sa q)) qs) sched) in
    (forall i, (i < length qs)%nat -> (5 <= occ i sched)%nat) ->
    (forall i t rc rg c g v s cr r start q,
        In (EvReply i t rc rg c g v s cr r start) tr -> nth_error qs i = Some q ->
        cr - s <= slack /\ q_t q <= start) ->
    Forall (fun z => z = 0)
           (check_obs data value evalf filt L value_eqb slack qs (obs_looks tr) (obs_reps qs tr)).
  Proof.
    intros qs sched slack Hcfg tr Hsched Hdelay. unfold check_obs.
    assert (Hgen : forall qs' i0, (forall j q, nth_error qs' j = Some q -> nth_error qs (i0 + j) = Some q) ->
              Forall (fun z => z = 0)
                     (check_from data value evalf filt L value_eqb slack (obs_looks tr) (obs_reps qs tr) i0 qs')).
    { induction qs' as [|q qs' IH]; intros i0 Hnth; cbn [check_from]; constructor.
      - assert (Hq : nth_error qs i0 = Some q) by (rewrite <- (Nat.add_0_r i0); apply Hnth; reflexivity).
        assert (Hlt : (i0 < length qs)%nat) by (apply nth_error_Some; congruence).
        set (reqs := map (fun q => (q_c q, q_g q, q_sa q)) qs) in *.
        destruct (one_reply_named data value evalf filt lookup L fixed0 reqs sched i0 Hcfg) as (_ & Hone & _ & Hnam).
        fold tr in Hone, Hnam.
        assert (Hlen : length (replies_of data value i0 tr) = 1%nat).
        { apply Hone; [unfold reqs; rewrite map_length; exact Hlt|apply Hsched; exact Hlt]. }
        destruct (replies_of data value i0 tr) as [|ev [|ev' rest]] eqn:Er; try discriminate.
        destruct (replies_of_in tr i0 ev) as (Hin & t & rc & rg & c & g & v & s & cr & r & start & ->);
          [rewrite Er; left; reflexivity|].
        destruct (Hnam _ _ _ _ _ _ _ _ _ _ Hin) as ((sa0 & Hreq) & -> & ->).
        destruct (staleness_bound data value evalf filt lookup L fixed0 reqs sched _ _ _ _ _ _ _ _ _ _ _ Hcfg Hin)
          as (Hv & (tid' & Hlk) & H1 & H2 & H3 & H4 & H5).
        destruct (Hdelay _ _ _ _ _ _ _ _ _ _ _ q Hin Hq) as (Hd1 & Hd2).
        assert (Hnames : rc = q_c q /\ rg = q_g q).
        { unfold reqs in Hreq. rewrite nth_error_map, Hq in Hreq. cbn in Hreq. inversion Hreq. split; reflexivity. }
        destruct Hnames as [-> ->].
        unfold check_req. rewrite filter_obs_reps, Er. cbn [obs_reps r_c r_g r_t r_v].
        rewrite !bytes_eqb_refl. cbn [andb].
        assert (Hex : existsb
           (fun l => bytes_eqb (l_c data l) (q_c q) && bytes_eqb (l_g data l) (q_g q) && (l_t data l <=? t)
                     && (q_t q - l_t data l <=? L + slack)
                     && body_eqb value value_eqb (option_map (view value filt (sa_of qs i0)) v)
                          (option_map (fun d => view value filt (q_sa q) (evalf (l_t data l) d)) (l_x data l)))
           (obs_looks tr) = true).
        { apply existsb_exists. exists (mkOlook data s (q_c q) (q_g q) (lookup s (q_c q) (q_g q))).
          split; [eapply obs_looks_in; exact Hlk|]. cbn [l_c l_g l_t l_x].
          rewrite !bytes_eqb_refl. cbn [andb].
          assert (E1 : (s <=? t) = true) by (apply Z.leb_le; lia).
          assert (E2 : (q_t q - s <=? L + slack) = true) by (apply Z.leb_le; lia).
          rewrite E1, E2. cbn [andb]. unfold sa_of. rewrite Hq, Hv.
          destruct (lookup s (q_c q) (q_g q)); cbn [option_map body_eqb]; auto. }
        rewrite Hex. reflexivity.
      - apply IH. intros j q' Hj. replace (S i0 + j)%nat with (i0 + S j)%nat by lia. apply Hnth. exact Hj. }
    apply Hgen. intros j q Hj. exact Hj.
  Qed.
End Oracle.
