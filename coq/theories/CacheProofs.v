(* Proofs about the evaluator cache model (C05): keys, then the invariant of Cache.step over every schedule. *)
From Coq Require Import ZArith List Bool Lia Decimal DecimalNat.
From Burrow Require Import Cache.
Import ListNotations.
Open Scope Z_scope.

Lemma bytes_eqb_eq : forall a b, bytes_eqb a b = true <-> a = b.
Proof.
  induction a as [|x a IH]; destruct b as [|y b]; cbn [bytes_eqb]; split; intro H; try congruence; try reflexivity.
  - apply andb_true_iff in H. destruct H as [H1 H2]. apply Z.eqb_eq in H1. apply IH in H2. congruence.
  - inversion H; subst. apply andb_true_iff. split. apply Z.eqb_refl. apply IH. reflexivity.
Qed.

Lemma split_first_space_app : forall a z, ~ In sp a -> split_first_space (a ++ sp :: z) = Some (a, z).
Proof.
  unfold sp. induction a as [|b a IH]; intros z Hn.
  - reflexivity.
  - change ((b :: a) ++ 32 :: z) with (b :: (a ++ 32 :: z)).
    cbn [split_first_space]. unfold sp.
    destruct (Z.eqb_spec b 32) as [->|Hne].
    + exfalso. apply Hn. left. reflexivity.
    + rewrite IH. reflexivity. intro Hin. apply Hn. right. exact Hin.
Qed.

Lemma bytes_uint_bytes : forall u, bytes_uint (uint_bytes u) = Some u.
Proof.
  induction u; cbn [uint_bytes bytes_uint]; try reflexivity; rewrite IHu; reflexivity.
Qed.

Lemma uint_bytes_digits : forall u b, In b (uint_bytes u) -> 48 <= b <= 57.
Proof.
  induction u; cbn [uint_bytes]; intros b Hb; try (destruct Hb as [<-|Hb]; [lia|auto]). contradiction.
Qed.

Lemma itoa_no_space : forall n, ~ In sp (itoa n).
Proof. intros n H. apply uint_bytes_digits in H. unfold sp in H. lia. Qed.

Lemma itoa_nonempty : forall n, itoa n <> [].
Proof.
  intros n H. unfold itoa in H.
  assert (Hu : Nat.to_uint n = Nil) by (destruct (Nat.to_uint n); cbn in H; congruence).
  pose proof (Unsigned.of_to n) as Hof. rewrite Hu in Hof. cbn in Hof. subst n. cbv in Hu. discriminate.
Qed.

Lemma atoi_itoa : forall n, atoi (itoa n) = Some n.
Proof.
  intros n. unfold atoi. pose proof (itoa_nonempty n) as Hne.
  destruct (itoa n) eqn:E; [congruence|]. rewrite <- E. unfold itoa. rewrite bytes_uint_bytes.
  rewrite Unsigned.of_to. reflexivity.
Qed.

(* ---------------------------------------------------------------------------------------------- *)
(* Keys                                                                                             *)
(* ---------------------------------------------------------------------------------------------- *)

(* the repaired key: splitCacheKey (cacheKey c g) = (c, g) for ALL byte strings *)
Theorem split_mk_key : forall c g, split_key (mk_key c g) = Some (c, g).
Proof.
  intros c g. unfold split_key, mk_key.
  rewrite split_first_space_app by apply itoa_no_space.
  rewrite atoi_itoa.
  assert (Hlt : (length c <? length (c ++ sp :: g))%nat = true).
  { apply Nat.ltb_lt. rewrite app_length. cbn. lia. }
  rewrite Hlt. rewrite app_nth2 by lia. rewrite Nat.sub_diag. cbn [nth]. rewrite Z.eqb_refl. cbn [andb].
  rewrite firstn_app, Nat.sub_diag, firstn_all. cbn [firstn]. rewrite app_nil_r.
  replace (S (length c)) with (length (c ++ [sp])) by (rewrite app_length; cbn; lia).
  replace (c ++ sp :: g) with ((c ++ [sp]) ++ g) by (rewrite <- app_assoc; reflexivity).
  rewrite skipn_app, skipn_all, Nat.sub_diag. reflexivity.
Qed.

Theorem key_injective : forall c1 g1 c2 g2, mk_key c1 g1 = mk_key c2 g2 -> c1 = c2 /\ g1 = g2.
Proof.
  intros c1 g1 c2 g2 H. pose proof (split_mk_key c1 g1) as H1. rewrite H, split_mk_key in H1.
  inversion H1. split; reflexivity.
Qed.

(* the key of the unrepaired code: correct only for cluster names without a space *)
Theorem split_mk_key_old : forall c g, no_space c -> split_key_old (mk_key_old c g) = Some (c, g).
Proof. intros c g Hn. unfold split_key_old, mk_key_old. apply split_first_space_app. exact Hn. Qed.

Theorem key_injective_old : forall c1 g1 c2 g2, no_space c1 -> no_space c2 ->
  mk_key_old c1 g1 = mk_key_old c2 g2 -> c1 = c2 /\ g1 = g2.
Proof.
  intros c1 g1 c2 g2 H1 H2 H. pose proof (split_mk_key_old c1 g1 H1) as E. rewrite H, split_mk_key_old in E by exact H2.
  inversion E. split; reflexivity.
Qed.

(* "a b" / "c" and "a" / "b c" *)
Theorem key_collision_refuted :
  exists c1 g1 c2 g2, (c1, g1) <> (c2, g2) /\ mk_key_old c1 g1 = mk_key_old c2 g2
                      /\ split_key_old (mk_key_old c1 g1) = Some (c2, g2).
Proof.
  exists [97; 32; 98], [99], [97], [98; 32; 99]. split; [discriminate|]. split; vm_compute; reflexivity.
Qed.
