(* Small association maps keyed by Z (interned names).  All statements about them go through [get]. *)
From Coq Require Import ZArith List Bool.
Import ListNotations.
Open Scope Z_scope.

Definition amap (V : Type) := list (Z * V).

Fixpoint get {V} (m : amap V) (k : Z) : option V :=
  match m with
  | [] => None
  | (k', v) :: r => if k' =? k then Some v else get r k
  end.

Definition remove {V} (m : amap V) (k : Z) : amap V := filter (fun kv => negb (fst kv =? k)) m.

Definition set {V} (m : amap V) (k : Z) (v : V) : amap V := (k, v) :: remove m k.

Definition keys {V} (m : amap V) : list Z := map fst m.

Definition map_vals {V W} (f : V -> W) (m : amap V) : amap W := map (fun kv => (fst kv, f (snd kv))) m.
