From Coq Require Import ZArith Lia.
From Burrow Require Import Int64.
Open Scope Z_scope.

Lemma wrap64_id z : in_i64 z -> wrap64 z = z.
Proof.
  unfold in_i64, wrap64, two63, two64; intros H.
  rewrite Z.mod_small by lia. lia.
Qed.

Lemma wrap64_range z : in_i64 (wrap64 z).
Proof.
  unfold in_i64, wrap64, two63, two64.
  pose proof (Z.mod_pos_bound (z + 9223372036854775808) 18446744073709551616 ltac:(lia)). lia.
Qed.

Lemma u64_id z : in_u64 z -> u64 z = z.
Proof. unfold in_u64, u64; intros; apply Z.mod_small; lia. Qed.

Lemma u64_range z : in_u64 (u64 z).
Proof. unfold in_u64, u64, two64; apply Z.mod_pos_bound; lia. Qed.

(* uint64(int64 - int64) after the guard  o < b  is the exact difference:
   the cast at inmemory.go:437 and :877 can never wrap to a huge value, even
   for b = 2^63-1, o = -2^63 (where the int64 subtraction itself wraps). *)
Lemma lag_cast_exact b o :
  in_i64 b -> in_i64 o -> o <= b ->
  u64 (sub64 b o) = b - o /\ 0 <= b - o < two64.
Proof.
  unfold in_i64, u64, sub64, wrap64, two63, two64; intros Hb Ho Hlt.
  split; [|lia].
  rewrite Zminus_mod_idemp_l.
  replace (b - o + 9223372036854775808 - 9223372036854775808) with (b - o) by lia.
  apply Z.mod_small; lia.
Qed.

Lemma in_i64b_spec z : in_i64b z = true <-> in_i64 z.
Proof. unfold in_i64b, in_i64; rewrite Bool.andb_true_iff, Z.leb_le, Z.ltb_lt; tauto. Qed.
Lemma in_u64b_spec z : in_u64b z = true <-> in_u64 z.
Proof. unfold in_u64b, in_u64; rewrite Bool.andb_true_iff, Z.leb_le, Z.ltb_lt; tauto. Qed.
