(* Executable model of the Kafka cluster module's refresh cycle (C11, C12).
   Anchors: core/internal/cluster/kafka_cluster.go
     mainLoop (ticker sets fetchMetadata; offset tick calls getOffsets)   :137-154
     maybeUpdateMetadataAndDeleteTopics                                   :156-210
     generateOffsetRequests                                               :212-237
     getOffsets                                                           :241-302

   Topics, partitions and brokers are Z ids.  One cycle = one call of getOffsets.  The outside world of one cycle
   (what the Sarama client and the brokers say during that call) is an `env`.  Go maps are association lists with
   unique keys; everything that Go produces in map-iteration or goroutine order (the blocks of a broker request, the
   storage requests) is a list here whose ORDER carries no meaning: theorems speak about membership and NoDup only,
   the probe and the driver sort before printing. *)
From Coq Require Import ZArith List Bool.
Import ListNotations.
Open Scope Z_scope.

(* result of a Sarama call: (value, nil) or (_, err) *)
Inductive call (A : Type) := Good (a : A) | Fail.
Arguments Good {A} a. Arguments Fail {A}.

(* a Go panic: the process dies (the goroutines of getOffsets have no recover) *)
Inductive outcome (A : Type) := Done (a : A) | Crash.
Arguments Done {A} a. Arguments Crash {A}.

Record env := mkEnv {
  e_topics : call (list Z);                      (* client.Topics() *)
  e_parts  : Z -> call (list Z);                 (* client.Partitions(topic) *)
  e_leader : Z -> Z -> call Z;                   (* client.Leader(topic, partition) -> broker id *)
  e_answer : Z -> call (Z -> Z -> Z * list Z)    (* broker.GetAvailableOffsets: call result; per asked (topic,
                                                    partition) block: KError code (0 = ErrNoError), Offsets *)
}.

(* value of module.topicPartitions[topic]: the partition ids that had a leader at refresh time (the slice) and the
   total partition count (the slice's capacity, make([]int32, 0, len(partitions))) *)
Record tinfo := mkTinfo { ti_ids : list Z; ti_count : Z }.

Definition snapshot := list (Z * tinfo).

Record state := mkState { fetchMetadata : bool; snap : snapshot }.

(* Start(): fetchMetadata = true, topicPartitions = nil (ranging over a nil map yields nothing, so nil = empty) *)
Definition init_state : state := mkState true [].

(* ---- Go map as association list ---------------------------------------------------------- *)
Fixpoint smap_find (t : Z) (s : snapshot) : option tinfo :=
  match s with
  | [] => None
  | (k, v) :: r => if k =? t then Some v else smap_find t r
  end.

Fixpoint smap_set (t : Z) (v : tinfo) (s : snapshot) : snapshot :=
  match s with
  | [] => [(t, v)]
  | (k, w) :: r => if k =? t then (k, v) :: r else (k, w) :: smap_set t v r
  end.

Definition smap_mem (t : Z) (s : snapshot) : bool :=
  match smap_find t s with Some _ => true | None => false end.

Definition keys (s : snapshot) : list Z := map fst s.

(* ---- maybeUpdateMetadataAndDeleteTopics -------------------------------------------------- *)
Definition has_leader (e : env) (t p : Z) : bool :=
  match e_leader e t p with Good _ => true | Fail => false end.

(* one iteration of `for _, topic := range topicList`: None = the Partitions call failed (early return) *)
Definition topic_info (e : env) (t : Z) : option tinfo :=
  match e_parts e t with
  | Fail => None
  | Good ps => Some (mkTinfo (filter (has_leader e t) ps) (Z.of_nat (length ps)))
  end.

(* the new map, or None when any Partitions call failed.  (A topic listed twice is looked up twice and stored
   twice with the same value.) *)
Fixpoint build_snapshot (e : env) (ts : list Z) : option snapshot :=
  match ts with
  | [] => Some []
  | t :: r =>
      match topic_info e t with
      | None => None
      | Some i => match build_snapshot e r with
                  | None => None
                  | Some s => Some (smap_set t i s)
                  end
      end
  end.

(* `for topic := range module.topicPartitions { if _, ok := topicPartitions[topic]; !ok { send SetDeleteTopic } }` *)
Definition deletions (old new : snapshot) : list Z :=
  filter (fun t => negb (smap_mem t new)) (keys old).

(* The topic list of a refresh that ran to completion in this cycle. *)
Definition refreshed (st : state) (e : env) : option (list Z) :=
  if fetchMetadata st then
    match e_topics e with
    | Fail => None
    | Good ts => match build_snapshot e ts with Some _ => Some ts | None => None end
    end
  else None.

(* returns the new snapshot and the SetDeleteTopic requests; fetchMetadata is false afterwards in every branch
   (it was false, or it was true and line 158 cleared it before the first call that can fail) *)
Definition maybe_refresh (st : state) (e : env) : snapshot * list Z :=
  if fetchMetadata st then
    match e_topics e with
    | Fail => (snap st, [])
    | Good ts =>
        match build_snapshot e ts with
        | None => (snap st, [])
        | Some new => (new, deletions (snap st) new)
        end
    end
  else (snap st, []).

(* ---- generateOffsetRequests --------------------------------------------------------------- *)
Definition ask := (Z * Z * Z)%type.   (* broker, topic, partition: one block of that broker's OffsetRequest *)

Definition ask_eq_dec (x y : ask) : {x = y} + {x <> y}.
Proof. repeat decide equality. Defined.

Definition topic_asks (e : env) (t : Z) (i : tinfo) : list ask :=
  flat_map (fun p => match e_leader e t p with Good b => [(b, t, p)] | Fail => [] end) (ti_ids i).

(* requests[broker].AddBlock(topic, partition, OffsetNewest, 1): blocks are a map keyed by (topic, partition) *)
Definition gen_asks (e : env) (s : snapshot) : list ask :=
  nodup ask_eq_dec (flat_map (fun ti => topic_asks e (fst ti) (snd ti)) s).

(* some Leader call failed: module.fetchMetadata = true (line 225) *)
Definition leader_failed (e : env) (s : snapshot) : bool :=
  existsb (fun ti => existsb (fun p => negb (has_leader e (fst ti) p)) (ti_ids (snd ti))) s.

(* ---- getOffsets --------------------------------------------------------------------------- *)
Inductive block_result := BUpdate (off : Z) | BError | BCrash.

(* one iteration of the inner loop over response.Blocks; Offsets[0] of an empty slice panics *)
Definition block_result_of (ans : Z -> Z -> Z * list Z) (t p : Z) : block_result :=
  let '(err, offs) := ans t p in
  if err =? 0 then match offs with [] => BCrash | o :: _ => BUpdate o end else BError.

Definition ask_result (e : env) (a : ask) : option block_result :=
  let '(b, t, p) := a in
  match e_answer e b with
  | Fail => None                                  (* failed call: logged, broker closed, nothing else *)
  | Good ans => Some (block_result_of ans t p)
  end.

Definition count_of (s : snapshot) (t : Z) : Z :=
  match smap_find t s with Some i => ti_count i | None => 0 end.    (* cap(nil) = 0 *)

Definition update := (Z * Z * Z * Z)%type.   (* topic, partition, offset, TopicPartitionCount *)

Definition ask_update (e : env) (s : snapshot) (a : ask) : list update :=
  match ask_result e a with
  | Some (BUpdate o) => [(snd (fst a), snd a, o, count_of s (snd (fst a)))]
  | _ => []
  end.

Definition is_error (e : env) (a : ask) : bool :=
  match ask_result e a with Some BError => true | _ => false end.
Definition is_crash (e : env) (a : ask) : bool :=
  match ask_result e a with Some BCrash => true | _ => false end.

Record cycle_out := mkOut {
  co_state   : state;          (* module state when getOffsets returns *)
  co_asks    : list ask;       (* blocks of the OffsetRequests sent, per broker *)
  co_updates : list update;    (* StorageSetBrokerOffset requests *)
  co_deletes : list Z          (* StorageSetDeleteTopic requests *)
}.

Definition cycle (st : state) (e : env) : outcome cycle_out :=
  let '(s, dels) := maybe_refresh st e in
  let asks := gen_asks e s in
  if existsb (is_crash e) asks then Crash
  else
    let fm := leader_failed e s || existsb (is_error e) asks in
    Done (mkOut (mkState fm s) asks (flat_map (ask_update e s) asks) dels).

(* ---- consecutive cycles -------------------------------------------------------------------- *)
(* metadataTicker fired since the last cycle *)
Definition tick (tk : bool) (st : state) : state :=
  if tk then mkState true (snap st) else st.

(* ghost: the environment of the last refresh that ran to completion *)
Definition ghost_next (st : state) (e : env) (g : option env) : option env :=
  match refreshed st e with Some _ => Some e | None => g end.

Record entry := mkEntry {
  en_pre   : state;        (* state at the call of getOffsets (after the ticker) *)
  en_env   : env;
  en_ghost : option env;   (* ghost at the call: the last completely refreshed environment before this cycle *)
  en_out   : cycle_out
}.

(* the run of a list of (ticker fired?, environment); a crash ends the process and the trace *)
Fixpoint trace (st : state) (g : option env) (l : list (bool * env)) : list entry :=
  match l with
  | [] => []
  | (tk, e) :: r =>
      let st1 := tick tk st in
      match cycle st1 e with
      | Crash => []
      | Done o => mkEntry st1 e g o :: trace (co_state o) (ghost_next st1 e g) r
      end
  end.

(* same run without ghosts, keeping the crash: what the driver prints *)
Fixpoint run (st : state) (l : list (bool * env)) : list (bool * outcome cycle_out) :=
  match l with
  | [] => []
  | (tk, e) :: r =>
      let st1 := tick tk st in
      match cycle st1 e with
      | Crash => [(fetchMetadata st1, Crash)]
      | Done o => (fetchMetadata st1, Done o) :: run (co_state o) r
      end
  end.

(* ---- environments from tables (driver, examples) ------------------------------------------- *)
(* row of a partition: id, leader, KError code, Offsets *)
Record prow := mkProw { pr_id : Z; pr_leader : call Z; pr_err : Z; pr_offs : list Z }.
(* row of a topic: id, Partitions() succeeds?, partitions *)
Record trow := mkTrow { tr_id : Z; tr_ok : bool; tr_parts : list prow }.

Fixpoint find_trow (t : Z) (tb : list trow) : option trow :=
  match tb with [] => None | r :: q => if tr_id r =? t then Some r else find_trow t q end.
Fixpoint find_prow (p : Z) (ps : list prow) : option prow :=
  match ps with [] => None | r :: q => if pr_id r =? p then Some r else find_prow p q end.
Definition find_row (tb : list trow) (t p : Z) : option prow :=
  match find_trow t tb with Some r => find_prow p (tr_parts r) | None => None end.

(* unknown topic/partition: no leader; a broker asked about it answers UnknownTopicOrPartition (3) *)
Definition env_of_tables (topics : call (list Z)) (tb : list trow) (failing : list Z) : env :=
  mkEnv topics
    (fun t => match find_trow t tb with
              | Some r => if tr_ok r then Good (map pr_id (tr_parts r)) else Fail
              | None => Fail end)
    (fun t p => match find_row tb t p with Some r => pr_leader r | None => Fail end)
    (fun b => if existsb (Z.eqb b) failing then Fail
              else Good (fun t p => match find_row tb t p with
                                    | Some r => (pr_err r, pr_offs r)
                                    | None => (3, []) end)).

(* ---- the storage side of a cycle (added 2026-10-02; nothing above changed) -------------------
   What the module hands to App.StorageChannel and what the storage module gets of it.
     * SetDeleteTopic (line 197) is a plain channel send: it blocks until storage takes the request.  Never lost; the
       cycle waits as long as storage is busy.
     * SetBrokerOffset (line 285) goes through helpers.TimeoutSendStorageRequest(ch, request, 1): if storage does not
       take the request within 1 s the request is dropped, the result of the call is ignored and the loop goes on.
   `co_updates` / `co_deletes` are therefore the requests OFFERED; a `storage_beh` says, per offered broker-offset
   update, whether storage takes it within the timeout (`delivered`).  The module's own state never depends on it. *)
Inductive sreq := SDeleteTopic (t : Z) | SBrokerOffset (u : update).

Definition storage_beh := update -> bool.      (* true: storage takes this request within the 1 s timeout *)

Record offer := mkOffer { of_update : update; delivered : bool }.

Definition offers (sv : storage_beh) (o : cycle_out) : list offer :=
  map (fun u => mkOffer u (sv u)) (co_updates o).

(* the requests the storage module receives from one cycle *)
Definition received (sv : storage_beh) (o : cycle_out) : list sreq :=
  map SDeleteTopic (co_deletes o)
  ++ map (fun f => SBrokerOffset (of_update f)) (filter delivered (offers sv o)).

Definition received_updates (sv : storage_beh) (o : cycle_out) : list update :=
  flat_map (fun r => match r with SBrokerOffset u => [u] | SDeleteTopic _ => [] end) (received sv o).
Definition received_deletes (sv : storage_beh) (o : cycle_out) : list Z :=
  flat_map (fun r => match r with SDeleteTopic t => [t] | SBrokerOffset _ => [] end) (received sv o).

(* storage always in time *)
Definition prompt : storage_beh := fun _ => true.

(* consecutive cycles with a storage behaviour per cycle: what the driver prints for the storage-scripted cases *)
Fixpoint run_s (st : state) (l : list (bool * env * storage_beh)) : list (bool * outcome (cycle_out * list sreq)) :=
  match l with
  | [] => []
  | (tk, e, sv) :: r =>
      let st1 := tick tk st in
      match cycle st1 e with
      | Crash => [(fetchMetadata st1, Crash)]
      | Done o => (fetchMetadata st1, Done (o, received sv o)) :: run_s (co_state o) r
      end
  end.

(* ---- what Go really consults (added 2026-10-02, audit C11; nothing above changed) -------------
   The type `env` bakes in two assumptions about the outside world:
     (a) leader_stable: client.Leader(t, p) gives the same answer at :179 (during the refresh) and at :219 (in
         generateOffsetRequests) of one cycle.  Go calls it twice; sarama's Leader may itself refresh on a miss.
     (b) answers_match_asks: a broker's OffsetResponse holds exactly the blocks it was asked.  Go ranges over
         response.Blocks (:262-263): an asked block that is missing yields nothing at all (no update, no flag); a
         block that was not asked is treated like any other (update with cap(module.topicPartitions[t]) as count:
         0 for a topic the module does not know; error code => flag; ErrNoError without offsets => panic).
   `xenv` drops both: `x_env` keeps Topics, Partitions, Leader AT REFRESH and the answers for asked blocks;
   `x_leader_req` is Leader in generateOffsetRequests; `x_omit b t p`: b's response lacks the asked block (t, p);
   `x_extra b`: the blocks of b's response that were not asked (topic, partition, (KError, Offsets)); a response is a
   map, so the keys (topic, partition) of one broker's extras are meant to be distinct.
   `xcycle` is getOffsets against such a world; under the two NAMED hypotheses it is `cycle` (ClusterModProofs.
   xcycle_stable).  The run-level theorems are stated over `trace`, i.e. for worlds satisfying (a) and (b); the
   one-cycle theorems x* of ClusterModProofs.v and the probe's `sc3` cases cover worlds that do not. *)
Record xenv := mkXenv {
  x_env : env;
  x_leader_req : Z -> Z -> call Z;
  x_omit : Z -> Z -> Z -> bool;
  x_extra : Z -> list (Z * Z * (Z * list Z))
}.

Definition leader_stable (x : xenv) : Prop := forall t p, x_leader_req x t p = e_leader (x_env x) t p.
Definition answers_match_asks (x : xenv) : Prop :=
  (forall b t p, x_omit x b t p = false) /\ (forall b, x_extra x b = []).

Definition plain (e : env) : xenv := mkXenv e (e_leader e) (fun _ _ _ => false) (fun _ => []).

(* the world as generateOffsetRequests sees it *)
Definition env_req (x : xenv) : env :=
  mkEnv (e_topics (x_env x)) (e_parts (x_env x)) (x_leader_req x) (e_answer (x_env x)).

Definition x_ask_result (x : xenv) (a : ask) : option block_result :=
  if x_omit x (fst (fst a)) (snd (fst a)) (snd a) then None else ask_result (x_env x) a.

Definition x_ask_update (x : xenv) (s : snapshot) (a : ask) : list update :=
  match x_ask_result x a with
  | Some (BUpdate o) => [(snd (fst a), snd a, o, count_of s (snd (fst a)))]
  | _ => []
  end.
Definition x_is_error (x : xenv) (a : ask) : bool :=
  match x_ask_result x a with Some BError => true | _ => false end.
Definition x_is_crash (x : xenv) (a : ask) : bool :=
  match x_ask_result x a with Some BCrash => true | _ => false end.

Definition asked_brokers (asks : list ask) : list Z := nodup Z.eq_dec (map (fun a => fst (fst a)) asks).

Definition ask_eqb (x y : ask) : bool := if ask_eq_dec x y then true else false.

(* the unasked blocks of the responses that arrive: only brokers that were asked and whose call succeeded answer; a
   block under a key that WAS asked of that broker is not "extra" (one block per key in a response map) *)
Definition extra_results (x : xenv) (asks : list ask) : list (Z * Z * block_result) :=
  flat_map (fun b =>
    match e_answer (x_env x) b with
    | Fail => []
    | Good _ =>
        map (fun tpb : Z * Z * (Z * list Z) =>
               (fst (fst tpb), snd (fst tpb), block_result_of (fun _ _ => snd tpb) (fst (fst tpb)) (snd (fst tpb))))
            (filter (fun tpb : Z * Z * (Z * list Z) => negb (existsb (ask_eqb (b, fst (fst tpb), snd (fst tpb))) asks))
                    (x_extra x b))
    end) (asked_brokers asks).

Definition extra_update (s : snapshot) (r : Z * Z * block_result) : list update :=
  match snd r with
  | BUpdate o => [(fst (fst r), snd (fst r), o, count_of s (fst (fst r)))]
  | _ => []
  end.
Definition br_is_error (r : Z * Z * block_result) : bool := match snd r with BError => true | _ => false end.
Definition br_is_crash (r : Z * Z * block_result) : bool := match snd r with BCrash => true | _ => false end.

Definition xcycle (st : state) (x : xenv) : outcome cycle_out :=
  let '(s, dels) := maybe_refresh st (x_env x) in
  let er := env_req x in
  let asks := gen_asks er s in
  let ex := extra_results x asks in
  if existsb (x_is_crash x) asks || existsb br_is_crash ex then Crash
  else
    let fm := leader_failed er s || existsb (x_is_error x) asks || existsb br_is_error ex in
    Done (mkOut (mkState fm s) asks (flat_map (x_ask_update x s) asks ++ flat_map (extra_update s) ex) dels).

Fixpoint xrun (st : state) (l : list (bool * xenv)) : list (bool * outcome cycle_out) :=
  match l with
  | [] => []
  | (tk, x) :: r =>
      let st1 := tick tk st in
      match xcycle st1 x with
      | Crash => [(fetchMetadata st1, Crash)]
      | Done o => (fetchMetadata st1, Done o) :: xrun (co_state o) r
      end
  end.

(* rows for the driver: a partition row with its request-time leader and the omit mark *)
Record xprow := mkXprow { xp_row : prow; xp_leader_req : call Z; xp_omit : bool }.
Record xtrow := mkXtrow { xt_id : Z; xt_ok : bool; xt_parts : list xprow }.

Definition xtable_plain (tb : list xtrow) : list trow :=
  map (fun r => mkTrow (xt_id r) (xt_ok r) (map xp_row (xt_parts r))) tb.

Fixpoint find_xtrow (t : Z) (tb : list xtrow) : option xtrow :=
  match tb with [] => None | r :: q => if xt_id r =? t then Some r else find_xtrow t q end.
Fixpoint find_xprow (p : Z) (ps : list xprow) : option xprow :=
  match ps with [] => None | r :: q => if pr_id (xp_row r) =? p then Some r else find_xprow p q end.
Definition find_xrow (tb : list xtrow) (t p : Z) : option xprow :=
  match find_xtrow t tb with Some r => find_xprow p (xt_parts r) | None => None end.

(* extras: (broker, topic, partition, KError, Offsets) *)
Definition xenv_of_tables (topics : call (list Z)) (tb : list xtrow) (failing : list Z)
           (extras : list (Z * Z * Z * Z * list Z)) : xenv :=
  mkXenv (env_of_tables topics (xtable_plain tb) failing)
         (fun t p => match find_xrow tb t p with Some r => xp_leader_req r | None => Fail end)
         (fun _ t p => match find_xrow tb t p with Some r => xp_omit r | None => false end)
         (fun b => flat_map (fun ex : Z * Z * Z * Z * list Z =>
                               let '(b', t, p, err, offs) := ex in
                               if b' =? b then [(t, p, (err, offs))] else []) extras).
