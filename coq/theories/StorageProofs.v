(* Proofs about the storage model (Storage.v): the shared sequential invariant [storage_inv], the refinement
   invariant that links the state to the history ([hinv]), and the lemmas behind property C01.
   Sections:
     0  lists / association maps            (general helper lemmas, exported)
     1  one commit arriving at a ring       (facts about Ring.ring_step proved from Ring.v's definitions alone)
     2  per-cluster invariant and one preservation lemma per handler
     3  histories: run_app, last_broker, hinv, storage never crashes sequentially
     4  C01: current lag, lag at commit, frame *)
From Coq Require Import ZArith List Bool Lia ZifyBool.
From Burrow Require Import Int64 Int64Proofs Eval AMap AMapProofs Ring Storage.
Import ListNotations.
Open Scope Z_scope.

(* ================================================================================================ *)
(* 0. lists and association maps                                                                    *)
(* ================================================================================================ *)

Definition optP {A} (P : A -> Prop) (o : option A) : Prop := match o with Some a => P a | None => True end.

Lemma length_set_nth {A} (l : list A) i x : length (set_nth l i x) = length l.
Proof. revert i; induction l as [|a l IH]; intros [|i]; cbn; auto. Qed.

Lemma nth_error_set_nth_eq {A} (l : list A) i x : (i < length l)%nat -> nth_error (set_nth l i x) i = Some x.
Proof. revert i; induction l as [|a l IH]; intros [|i] H; cbn in *; try lia; auto. apply IH; lia. Qed.

Lemma nth_error_set_nth_neq {A} (l : list A) i j x : i <> j -> nth_error (set_nth l i x) j = nth_error l j.
Proof. revert i j; induction l as [|a l IH]; intros [|i] [|j] H; cbn; auto; try congruence. Qed.

Lemma nth_error_set_nth_inv {A} (l : list A) i j x y :
  nth_error (set_nth l i x) j = Some y -> (j = i /\ y = x) \/ (j <> i /\ nth_error l j = Some y).
Proof.
  intros H. destruct (Nat.eq_dec j i) as [->|Hne].
  - left. split; [reflexivity|].
    assert (Hl : (i < length l)%nat).
    { rewrite <- (length_set_nth l i x). apply nth_error_Some. congruence. }
    rewrite nth_error_set_nth_eq in H by exact Hl. congruence.
  - right. split; [exact Hne|]. rewrite nth_error_set_nth_neq in H by congruence. exact H.
Qed.

Lemma nth_nth_error {A} (l : list A) i d : (i < length l)%nat -> nth_error l i = Some (nth i l d).
Proof. revert i; induction l as [|a l IH]; intros [|i] H; cbn in *; try lia; auto. apply IH; lia. Qed.

Lemma nth_error_app_l {A} (l m : list A) i x : nth_error l i = Some x -> nth_error (l ++ m) i = Some x.
Proof. intros H. rewrite nth_error_app1; [exact H|]. apply nth_error_Some. congruence. Qed.

Lemma nth_error_repeat {A} (x y : A) n i : nth_error (repeat x n) i = Some y -> y = x.
Proof. intros H. apply nth_error_In in H. apply repeat_spec in H. exact H. Qed.

Lemma nth_error_app_repeat {A} (l : list A) x n i y :
  nth_error (l ++ repeat x n) i = Some y -> nth_error l i = Some y \/ y = x.
Proof.
  intros H. destruct (lt_dec i (length l)) as [Hl|Hl].
  - left. rewrite nth_error_app1 in H by exact Hl. exact H.
  - right. rewrite nth_error_app2 in H by lia. eapply nth_error_repeat; exact H.
Qed.

Lemma last_rev_hd {A} (l : list A) d : last (rev l) d = hd d l.
Proof. destruct l as [|a l]; [reflexivity|]. cbn [rev hd]. apply last_last. Qed.

Lemma last_cons_ne {A} (a : A) l d : l <> [] -> last (a :: l) d = last l d.
Proof. destruct l; [congruence|reflexivity]. Qed.

Lemma somes_app {A} (l m : list (option A)) : somes (l ++ m) = somes l ++ somes m.
Proof. unfold somes. apply flat_map_app. Qed.

(* the newest recorded broker offset survives the read-out that drops empty slots *)
Lemma somes_last {A} (r : list (option A)) (b : A) :
  last r None = Some b -> somes r <> [] /\ forall d, last (somes r) d = b.
Proof.
  intros H. destruct r as [|x r] using rev_ind; [discriminate|].
  rewrite last_last in H. subst x. rewrite somes_app. cbn. split.
  - intros E. apply app_eq_nil in E. destruct E; discriminate.
  - intros d. apply last_last.
Qed.

Lemma In_somes {A} (r : list (option A)) (b : A) : In b (somes r) <-> In (Some b) r.
Proof.
  unfold somes. rewrite in_flat_map. split.
  - intros ([y|] & Hy & Hb); cbn in Hb; [|contradiction]. destruct Hb as [->|[]]. exact Hy.
  - intros H. exists (Some b). split; [exact H|left; reflexivity].
Qed.

Lemma NoDup_keys_remove {V} (m : amap V) k : NoDup (keys m) -> NoDup (keys (remove m k)).
Proof.
  unfold keys, remove. induction m as [|[k' v] r IH]; cbn; intros H; [constructor|].
  inversion H as [|? ? Hn Hr]; subst.
  destruct (k' =? k); cbn; [apply IH; exact Hr|].
  constructor; [|apply IH; exact Hr].
  intros Hin. apply Hn. apply in_map_iff in Hin. destruct Hin as (kv & E & Hin).
  apply filter_In in Hin. apply in_map_iff. exists kv. tauto.
Qed.

Lemma NoDup_keys_set {V} (m : amap V) k v : NoDup (keys m) -> NoDup (keys (set m k v)).
Proof.
  intros H. unfold set. cbn. constructor; [|apply NoDup_keys_remove; exact H].
  intros Hin. apply keys_remove in Hin. destruct Hin as [_ Hne]. congruence.
Qed.

Lemma NoDup_keys_map_vals {V W} (f : V -> W) (m : amap V) : NoDup (keys m) -> NoDup (keys (map_vals f m)).
Proof. rewrite keys_map_vals. auto. Qed.

Lemma in_get {V} (m : amap V) k v : NoDup (keys m) -> In (k, v) m -> get m k = Some v.
Proof.
  induction m as [|[k' v'] r IH]; cbn; intros Hnd Hin; [contradiction|].
  inversion Hnd as [|? ? Hn Hr]; subst. destruct Hin as [E|Hin].
  - injection E as -> ->. rewrite Z.eqb_refl. reflexivity.
  - destruct (k' =? k) eqn:E.
    + apply Z.eqb_eq in E. subst k'. exfalso. apply Hn. apply in_map_iff. exists (k, v). auto.
    + apply IH; assumption.
Qed.

Lemma get_in {V} (m : amap V) k v : get m k = Some v -> In (k, v) m.
Proof.
  induction m as [|[k' v'] r IH]; cbn; [discriminate|].
  destruct (k' =? k) eqn:E.
  - apply Z.eqb_eq in E. intros H. injection H as ->. subst. left; reflexivity.
  - intros H. right. apply IH; exact H.
Qed.

Lemma get_default {V} (m : amap V) k v d : get m k = Some v -> match get m k with Some l => l | None => d end = v.
Proof. intros ->; reflexivity. Qed.

(* a property of every bound value survives [set] *)
Lemma get_set_inv {V} (m : amap V) k k' v v' :
  get (set m k v) k' = Some v' -> (k' = k /\ v' = v) \/ (k' <> k /\ get m k' = Some v').
Proof.
  intros H. destruct (Z.eq_dec k k') as [->|Hne].
  - rewrite get_set_eq in H. left. split; congruence.
  - rewrite get_set_neq in H by exact Hne. right. split; congruence.
Qed.

Lemma get_remove_inv {V} (m : amap V) k k' v' :
  get (remove m k) k' = Some v' -> k' <> k /\ get m k' = Some v'.
Proof.
  intros H. destruct (Z.eq_dec k k') as [->|Hne].
  - rewrite get_remove_eq in H. discriminate.
  - rewrite get_remove_neq in H by exact Hne. split; congruence.
Qed.

(* ================================================================================================ *)
(* 1. one commit arriving at a ring (from the definitions of Ring.v; no shape assumption)           *)
(* ================================================================================================ *)

(* [e] is the entry written for commit [c] with lag value [lag] (the timestamp may be the merged one) *)
Definition new_entry (c : commit) (lag : option Z) (e : coff) : Prop :=
  co_offset e = cm_offset c /\ co_order e = cm_order c /\ co_lag e = lag.

(* [r'] is [r] with exactly one slot taken out (overwritten, or pushed out at the oldest end) and the entry
   [e] put in; every other slot is kept, in the same relative order *)
Definition overwrite (r r' : ring) (e : coff) : Prop :=
  exists a b a' x b', r' = a ++ Some e :: b /\ r = a' ++ x :: b' /\ a ++ b = a' ++ b'.

Lemma overwrite_In r r' e s : overwrite r r' e -> In s r' -> s = Some e \/ In s r.
Proof.
  intros (a & b & a' & x & b' & -> & -> & E) H.
  apply in_app_or in H. destruct H as [H|[H|H]]; [| left; congruence |].
  - right. assert (Hi : In s (a ++ b)) by (apply in_or_app; auto).
    rewrite E in Hi. apply in_app_or in Hi. apply in_or_app. cbn. tauto.
  - right. assert (Hi : In s (a ++ b)) by (apply in_or_app; auto).
    rewrite E in Hi. apply in_app_or in Hi. apply in_or_app. cbn. tauto.
Qed.

Lemma overwrite_length r r' e : overwrite r r' e -> length r' = length r.
Proof.
  intros (a & b & a' & x & b' & -> & -> & E).
  apply (f_equal (@length _)) in E. rewrite !app_length in *. cbn. lia.
Qed.

Definition place_ok (r : ring) (p : place) : Prop :=
  match p with
  | PReplace a x b => r = a ++ x :: b
  | PShift a pv b => r = a ++ Some pv :: b
  | PDrop | PAppend => True
  end.

Lemma push_ok y r p : place_ok r p -> place_ok (y :: r) (push y p).
Proof. destruct p; cbn; intros H; try exact I; rewrite H; reflexivity. Qed.

Lemma scan_ok r order : place_ok r (scan r order).
Proof.
  induction r as [|[pv|] below IH]; cbn [scan]; [exact I| |reflexivity].
  destruct (co_order pv <? order); [reflexivity|].
  destruct (co_order pv =? order); [exact I|].
  destruct below as [|y below']; [reflexivity|].
  apply push_ok. exact IH.
Qed.

Lemma find_place_ok r order : place_ok r (find_place r order).
Proof.
  unfold find_place. destruct r as [|[nw|] r']; try exact I.
  destruct (last (Some nw :: r') None) as [ol|].
  - destruct (order <=? co_order ol); [exact I|]. destruct (order <=? co_order nw); [apply scan_ok|exact I].
  - destruct (order <=? co_order nw); [apply scan_ok|exact I].
Qed.

(* scan only answers for a commit that is not newer than the newest *)
Lemma find_place_append r order :
  find_place r order = PAppend ->
  r <> [] /\ (hd None r = None \/ exists nw, hd None r = Some nw /\ co_order nw < order).
Proof.
  unfold find_place. destruct r as [|[nw|] r']; [discriminate| |].
  - intros H. split; [discriminate|]. right. exists nw. split; [reflexivity|].
    assert (Hs : forall o, scan (Some nw :: r') o <> PAppend).
    { intros o. generalize (Some nw :: r'). intros l. induction l as [|[pv|] below IHl]; cbn [scan]; try discriminate.
      destruct (co_order pv <? o); [discriminate|]. destruct (co_order pv =? o); [discriminate|].
      destruct below; [discriminate|]. destruct (scan (o0 :: below) o); cbn; try discriminate. exact IHl. }
    destruct (last (Some nw :: r') None) as [ol|].
    + destruct (order <=? co_order ol); [discriminate|].
      destruct (order <=? co_order nw) eqn:E; [exfalso; eapply Hs; exact H|lia].
    + destruct (order <=? co_order nw) eqn:E; [exfalso; eapply Hs; exact H|lia].
  - intros _. split; [discriminate|]. left; reflexivity.
Qed.

Lemma find_place_not_append r order p :
  find_place r order = p -> p <> PAppend -> p <> PDrop ->
  exists nw, hd None r = Some nw /\ order <= co_order nw.
Proof.
  unfold find_place. destruct r as [|[nw|] r']; [congruence| |congruence].
  intros H Ha Hd. exists nw. split; [reflexivity|].
  destruct (last (Some nw :: r') None) as [ol|].
  - destruct (order <=? co_order ol); [congruence|]. destruct (order <=? co_order nw) eqn:E; [lia|congruence].
  - destruct (order <=? co_order nw) eqn:E; [lia|congruence].
Qed.

Lemma removelast_split {A} (l : list A) d : l <> [] -> l = removelast l ++ [last l d].
Proof. apply app_removelast_last. Qed.

Lemma store_append md r c lag :
  r <> [] ->
  exists e rest a' x b', store md r PAppend c lag = Some e :: rest /\ new_entry c lag e /\
                         r = a' ++ x :: b' /\ rest = a' ++ b'.
Proof.
  intros Hne. cbn [store].
  assert (Hfresh : exists e rest a' x b', Some (mkCoff (cm_offset c) (cm_order c) (cm_ts c) lag) :: removelast r = Some e :: rest /\
             new_entry c lag e /\ r = a' ++ x :: b' /\ rest = a' ++ b').
  { eexists _, (removelast r), (removelast r), (last r None), []. split; [reflexivity|]. split; [repeat split|].
    split; [apply removelast_split; exact Hne|]. rewrite app_nil_r. reflexivity. }
  destruct r as [|[pv|] r']; [congruence| |exact Hfresh].
  cbn [hd tl]. destruct (merges md pv c); [|exact Hfresh].
  eexists _, r', [], (Some pv), r'. split; [reflexivity|]. split; [repeat split|]. split; reflexivity.
Qed.

Lemma store_overwrite md r p c lag :
  place_ok r p -> p <> PDrop -> p <> PAppend ->
  exists e, new_entry c lag e /\ overwrite r (store md r p c lag) e.
Proof.
  intros Hok Hd Ha. destruct p as [| |a x b|a pv b]; try congruence; cbn in Hok; cbn [store].
  - (* PReplace *)
    assert (Hfresh : exists e, new_entry c lag e /\
               overwrite r (a ++ Some (mkCoff (cm_offset c) (cm_order c) (cm_ts c) lag) :: b) e).
    { exists (mkCoff (cm_offset c) (cm_order c) (cm_ts c) lag). split; [repeat split|].
      exists a, b, a, x, b. subst r. auto. }
    destruct b as [|[pv|] b'].
    + destruct r as [|[pv|] r'] eqn:Er; cbn [hd tl]; try exact Hfresh.
      destruct (merges md pv c); [|exact Hfresh].
      exists (mkCoff (cm_offset c) (cm_order c) (co_ts pv) lag). split; [repeat split|].
      exists (@nil (option coff)), r', (@nil (option coff)), (Some pv), r'. auto.
    + destruct (merges md pv c); [|exact Hfresh].
      exists (mkCoff (cm_offset c) (cm_order c) (co_ts pv) lag). split; [repeat split|].
      exists (a ++ [x]), b', (a ++ [x]), (Some pv), b'.
      subst r. rewrite <- !app_assoc. cbn. auto.
    + exact Hfresh.
  - (* PShift *)
    destruct (merges md pv c).
    + exists (mkCoff (cm_offset c) (cm_order c) (co_ts pv) lag). split; [repeat split|].
      exists a, b, a, (Some pv), b. subst r. auto.
    + exists (mkCoff (cm_offset c) (cm_order c) (cm_ts c) lag). split; [repeat split|].
      exists a, (removelast (Some pv :: b)), (a ++ removelast (Some pv :: b)), (last (Some pv :: b) None), (@nil (option coff)).
      split; [reflexivity|]. split.
      * subst r. rewrite <- app_assoc. f_equal. apply removelast_split. discriminate.
      * rewrite app_nil_r. reflexivity.
Qed.

(* Everything C01 needs to know about one arrival.  [app] is the flag "the destination was an append"
   (then, and only then, the caller computed a lag value). *)
Lemma ring_step_cases md r c lag r' app :
  ring_step md r c lag = (r', app) ->
  if app
  then (hd None r = None \/ exists nw, hd None r = Some nw /\ co_order nw < cm_order c) /\
       exists e rest a' x b', r' = Some e :: rest /\ new_entry c (Some lag) e /\ r = a' ++ x :: b' /\ rest = a' ++ b'
  else r' = r \/
       ((exists nw, hd None r = Some nw /\ cm_order c <= co_order nw) /\
        exists e, new_entry c None e /\ overwrite r r' e).
Proof.
  unfold ring_step. destruct (find_place r (cm_order c)) as [| |a x b|a pv b] eqn:Ef; intros H; injection H as <- <-.
  - left; reflexivity.
  - apply find_place_append in Ef. destruct Ef as [Hne Hnew]. split; [exact Hnew|].
    refine (store_append md r c (Some lag) Hne).
  - right. split.
    + eapply find_place_not_append; [exact Ef|discriminate|discriminate].
    + refine (store_overwrite md r (PReplace a x b) c None _ _ _); [|discriminate|discriminate].
      rewrite <- Ef. apply find_place_ok.
  - right. split.
    + eapply find_place_not_append; [exact Ef|discriminate|discriminate].
    + refine (store_overwrite md r (PShift a pv b) c None _ _ _); [|discriminate|discriminate].
      rewrite <- Ef. apply find_place_ok.
Qed.

(* slot-wise consequence: a slot of the new ring is an old slot or the entry just written *)
Lemma ring_step_slots md r c lag r' app s :
  ring_step md r c lag = (r', app) -> In s r' ->
  In s r \/ exists e, s = Some e /\ new_entry c (if app then Some lag else None) e.
Proof.
  intros H Hin. apply ring_step_cases in H. destruct app.
  - destruct H as (_ & e & rest & a' & x & b' & -> & Hn & -> & ->).
    destruct Hin as [<-|Hin]; [right; eauto|].
    left. apply in_app_or in Hin. apply in_or_app. cbn. tauto.
  - destruct H as [->|(_ & e & Hn & Ho)]; [left; exact Hin|].
    destruct (overwrite_In _ _ _ _ Ho Hin) as [->|Hi]; [right; eauto|left; exact Hi].
Qed.

Lemma ring_step_length md r c lag r' app : ring_step md r c lag = (r', app) -> length r' = length r.
Proof.
  intros H. apply ring_step_cases in H. destruct app.
  - destruct H as (_ & e & rest & a' & x & b' & -> & _ & -> & ->). cbn. rewrite !app_length. cbn. lia.
  - destruct H as [->|(_ & e & _ & Ho)]; [reflexivity|]. eapply overwrite_length; exact Ho.
Qed.

(* ================================================================================================ *)
(* 2. per-cluster invariant; one preservation lemma per handler                                     *)
(* ================================================================================================ *)
(* The invariant is parametrised by the "spec side":
     lb t p      what the history says the newest broker offset of (t,p) is
     P g t i e   what the history says about a stored commit e of group g, topic t, partition index i
   so that the handler lemmas are free of any reasoning about histories. *)

Definition bring_ok (N : nat) (r : bring) : Prop := length r = N /\ Forall (optP in_i64) r.

Definition part_ok (P : nat -> coff -> Prop) (tl : list bring) (i : nat) (pr : cpartition) : Prop :=
  forall w, pr_ring pr = Some w ->
    Forall (optP (P i)) w /\ exists r b, nth_error tl i = Some r /\ last r None = Some b.

Definition parts_ok (P : nat -> coff -> Prop) (tl : list bring) (parts : list cpartition) : Prop :=
  (length parts <= length tl)%nat /\ forall i pr, nth_error parts i = Some pr -> part_ok P tl i pr.

Definition group_ok (P : Z -> nat -> coff -> Prop) (br : amap (list bring)) (grp : cgroup) : Prop :=
  NoDup (keys (g_topics grp)) /\
  forall t parts, get (g_topics grp) t = Some parts -> exists tl, get br t = Some tl /\ parts_ok (P t) tl parts.

Definition broker_ok (N : nat) (lb : Z -> Z -> option Z) (br : amap (list bring)) : Prop :=
  forall t tl, get br t = Some tl ->
    Forall (bring_ok N) tl /\
    forall i r b, nth_error tl i = Some r -> last r None = Some b -> lb t (Z.of_nat i) = Some b.

Definition cinv (N : nat) (lb : Z -> Z -> option Z) (P : Z -> Z -> nat -> coff -> Prop) (cl : cluster) : Prop :=
  broker_ok N lb (cl_broker cl) /\
  forall g grp, get (cl_consumer cl) g = Some grp -> group_ok (P g) (cl_broker cl) grp.

Lemma Forall_set_nth {A} (Q : A -> Prop) l i x : Forall Q l -> Q x -> Forall Q (set_nth l i x).
Proof.
  intros Hl Hx. revert i. induction Hl as [|a l Ha Hl IH]; intros [|i]; cbn; auto.
Qed.

Lemma Forall_optP_impl {A} (Q R : A -> Prop) l : (forall a, Q a -> R a) -> Forall (optP Q) l -> Forall (optP R) l.
Proof. intros H. apply Forall_impl. intros [a|]; cbn; auto. Qed.

Lemma parts_ok_mono P (tl tl' : list bring) parts :
  (length tl <= length tl')%nat ->
  (forall i r b, nth_error tl i = Some r -> last r None = Some b ->
                 exists r' b', nth_error tl' i = Some r' /\ last r' None = Some b') ->
  parts_ok P tl parts -> parts_ok P tl' parts.
Proof.
  intros Hlen Hpt [Hl Hp]. split; [unfold bring in *; lia|].
  intros i pr Hi w Hw. destruct (Hp i pr Hi w Hw) as (HF & r & b & Hr & Hb).
  split; [exact HF|]. apply (Hpt i r b Hr Hb).
Qed.

Lemma parts_ok_impl (P Q : nat -> coff -> Prop) tl parts :
  (forall i e, P i e -> Q i e) -> parts_ok P tl parts -> parts_ok Q tl parts.
Proof.
  intros H [Hl Hp]. split; [exact Hl|]. intros i pr Hi w Hw.
  destruct (Hp i pr Hi w Hw) as (HF & Hr). split; [|exact Hr].
  eapply Forall_optP_impl; [|exact HF]. apply H.
Qed.

Lemma group_ok_broker_mono P br br' grp :
  (forall t tl, get br t = Some tl -> exists tl', get br' t = Some tl' /\ (length tl <= length tl')%nat /\
     forall i r b, nth_error tl i = Some r -> last r None = Some b ->
                   exists r' b', nth_error tl' i = Some r' /\ last r' None = Some b') ->
  group_ok P br grp -> group_ok P br' grp.
Proof.
  intros H [Hnd Hg]. split; [exact Hnd|]. intros t parts Ht.
  destruct (Hg t parts Ht) as (tl & Htl & Hp). destruct (H t tl Htl) as (tl' & Htl' & Hlen & Hpt).
  exists tl'. split; [exact Htl'|]. eapply parts_ok_mono; eauto.
Qed.

Lemma group_ok_impl (P Q : Z -> nat -> coff -> Prop) br grp :
  (forall t i e, P t i e -> Q t i e) -> group_ok P br grp -> group_ok Q br grp.
Proof.
  intros H [Hnd Hg]. split; [exact Hnd|]. intros t parts Ht.
  destruct (Hg t parts Ht) as (tl & Htl & Hp). exists tl. split; [exact Htl|].
  eapply parts_ok_impl; [|exact Hp]. apply H.
Qed.

Lemma group_ok_empty P br : group_ok P br empty_group.
Proof. split; [constructor|]. cbn. discriminate. Qed.

Lemma cinv_impl N lb lb' (P Q : Z -> Z -> nat -> coff -> Prop) cl :
  (forall t p, lb' t p = lb t p) -> (forall g t i e, P g t i e -> Q g t i e) ->
  cinv N lb P cl -> cinv N lb' Q cl.
Proof.
  intros Hlb HPQ [Hb Hg]. split.
  - intros t tl Ht. destruct (Hb t tl Ht) as [HF Hl]. split; [exact HF|].
    intros i r b Hr Hbv. rewrite Hlb. eapply Hl; eauto.
  - intros g grp Hgr. eapply group_ok_impl; [|apply Hg; exact Hgr]. apply HPQ.
Qed.

(* a cluster-wise property survives replacing one cluster *)
Lemma inv_set (Q : Z -> cluster -> Prop) (st : state) c0 cl' :
  (forall c cl, get st c = Some cl -> Q c cl) -> Q c0 cl' ->
  forall c cl, get (set st c0 cl') c = Some cl -> Q c cl.
Proof.
  intros H H0 c cl Hg. apply get_set_inv in Hg. destruct Hg as [[-> ->]|[_ Hg]]; auto.
Qed.

(* ---- SetBrokerOffset ---- *)
Lemma last_repeat_none {A} n : last (repeat (@None A) n) None = None.
Proof. induction n as [|n IH]; [reflexivity|]. cbn [repeat]. destruct n; [reflexivity|]. rewrite last_cons_ne; [exact IH|discriminate]. Qed.

Lemma bring_ok_blank N : bring_ok N (repeat None N).
Proof. split; [apply repeat_length|]. apply Forall_forall. intros x Hx. apply repeat_spec in Hx. subst. exact I. Qed.

Lemma abo_inv cf st c cl t p cnt off lb lb' P :
  (1 <= cf_intervals cf)%nat ->
  get st c = Some cl -> cinv (cf_intervals cf) lb P cl ->
  0 <= p < cnt -> in_i64 off ->
  lb' t p = Some off -> (forall t' p', t' <> t \/ p' <> p -> lb' t' p' = lb t' p') ->
  exists cl', add_broker_offset cf st c t p cnt off = Done (set st c cl') RNone /\
              cl_consumer cl' = cl_consumer cl /\ cinv (cf_intervals cf) lb' P cl'.
Proof.
  intros HN Hc [Hb Hg] Hp Hoff Hlb1 Hlb2. unfold add_broker_offset. rewrite Hc.
  set (N := cf_intervals cf) in *.
  set (tl0 := match get (cl_broker cl) t with Some l => l | None => [] end).
  set (tl1 := if Z.of_nat (length tl0) <=? cnt then tl0 ++ repeat (repeat None N) (Z.to_nat cnt - length tl0) else tl0).
  assert (Htl0 : Forall (bring_ok N) tl0 /\
                 forall i r b, nth_error tl0 i = Some r -> last r None = Some b -> lb t (Z.of_nat i) = Some b).
  { unfold tl0. destruct (get (cl_broker cl) t) as [l|] eqn:E; [apply Hb; exact E|].
    split; [constructor|]. intros [|i] r b H; discriminate. }
  destruct Htl0 as [HF0 HL0].
  assert (Hext : exists n, tl1 = tl0 ++ repeat (repeat None N) n).
  { unfold tl1. destruct (Z.of_nat (length tl0) <=? cnt); [eexists; reflexivity|]. exists 0%nat. cbn. rewrite app_nil_r. reflexivity. }
  assert (Hlen1 : (Z.to_nat p < length tl1)%nat).
  { unfold tl1. destruct (Z.of_nat (length tl0) <=? cnt) eqn:E.
    - rewrite app_length, repeat_length. lia.
    - lia. }
  assert (HF1 : Forall (bring_ok N) tl1).
  { destruct Hext as [n ->]. apply Forall_app. split; [exact HF0|].
    apply Forall_forall. intros x Hx. apply repeat_spec in Hx. subst. apply bring_ok_blank. }
  assert (HL1 : forall i r b, nth_error tl1 i = Some r -> last r None = Some b -> nth_error tl0 i = Some r).
  { destruct Hext as [n ->]. intros i r b Hr Hbv. apply nth_error_app_repeat in Hr. destruct Hr as [Hr| ->]; [exact Hr|].
    rewrite last_repeat_none in Hbv. discriminate. }
  destruct ((p <? 0) || (Z.of_nat (length tl1) <=? p)) eqn:Ecr; [lia|].
  fold tl0. fold tl1.
  set (i := Z.to_nat p). set (r := nth i tl1 []). set (r' := tl r ++ [Some off]).
  set (newtl := set_nth tl1 i r').
  exists (mkCluster (set (cl_broker cl) t newtl) (cl_consumer cl)).
  split; [reflexivity|]. split; [reflexivity|].
  assert (Hr : nth_error tl1 i = Some r) by (apply nth_nth_error; exact Hlen1).
  assert (Hrok : bring_ok N r).
  { rewrite Forall_forall in HF1. apply HF1. eapply nth_error_In; exact Hr. }
  assert (Hr'ok : bring_ok N r').
  { destruct Hrok as [Hl HFr]. unfold r'. split.
    - rewrite app_length. cbn. destruct r as [|x r0]; cbn in *; lia.
    - apply Forall_app. split; [|constructor; [exact Hoff|constructor]].
      destruct r as [|x r0]; cbn; [constructor|]. inversion HFr; assumption. }
  assert (Hlast' : last r' None = Some off) by (unfold r'; apply last_last).
  assert (Hpi : Z.of_nat i = p) by (unfold i; lia).
  split; cbn [cl_broker cl_consumer].
  - intros t' tl' Ht'. apply get_set_inv in Ht'. destruct Ht' as [[-> ->]|[Hne Ht']].
    + split; [apply Forall_set_nth; assumption|].
      intros j rj b Hj Hbv. apply nth_error_set_nth_inv in Hj. destruct Hj as [[-> ->]|[Hne Hj]].
      * rewrite Hpi, Hlb1. congruence.
      * rewrite Hlb2 by (right; lia). eapply HL0; [|exact Hbv]. eapply HL1; eauto.
    + destruct (Hb t' tl' Ht') as [HF HL]. split; [exact HF|].
      intros j rj b Hj Hbv. rewrite Hlb2 by (left; exact Hne). eapply HL; eauto.
  - intros g grp Hgr. eapply group_ok_broker_mono; [|apply Hg; exact Hgr].
    intros t' tl' Ht'. destruct (Z.eq_dec t' t) as [->|Hne].
    + exists newtl. rewrite get_set_eq. split; [reflexivity|].
      assert (Etl : tl' = tl0) by (symmetry; apply get_default; exact Ht'). subst tl'.
      split.
      * unfold newtl. rewrite length_set_nth. destruct Hext as [n ->]. rewrite app_length. unfold bring in *; lia.
      * intros j rj b Hj Hbv. destruct (Nat.eq_dec j i) as [->|Hji].
        -- exists r', off. split; [apply nth_error_set_nth_eq; exact Hlen1|exact Hlast'].
        -- exists rj, b. split; [|exact Hbv]. unfold newtl. rewrite nth_error_set_nth_neq by congruence.
           destruct Hext as [n ->]. apply nth_error_app_l. exact Hj.
    + exists tl'. rewrite get_set_neq by congruence. split; [exact Ht'|]. split; [lia|]. eauto.
Qed.

(* ---- getBrokerOffset / getConsumerPartition ---- *)
Lemma gbo_spec cl t p boff cnt :
  get_broker_offset cl t p = (boff, cnt) -> cnt <> 0 ->
  exists (tl : list bring) r, get (cl_broker cl) t = Some tl /\ 0 <= p /\ nth_error tl (Z.to_nat p) = Some r /\
               last r None = Some boff /\ cnt = Z.of_nat (length tl) /\ (Z.to_nat p < length tl)%nat.
Proof.
  unfold get_broker_offset. destruct (get (cl_broker cl) t) as [tl|]; [|intros H; injection H as <- <-; congruence].
  destruct (p <? 0) eqn:E1; [intros H; injection H as <- <-; congruence|].
  destruct (Z.of_nat (length tl) <=? p) eqn:E2; [intros H; injection H as <- <-; congruence|].
  assert (Hl : (Z.to_nat p < length tl)%nat) by lia.
  destruct (last (nth (Z.to_nat p) tl []) None) as [off|] eqn:E3; intros H; injection H as <- <-; [|congruence].
  intros _. exists tl, (nth (Z.to_nat p) tl []). repeat split; auto; try lia. apply nth_nth_error; exact Hl.
Qed.

(* the offsets ring of partition index j, as the handlers see it: a partition that does not exist yet, or has
   no ring yet, is given a fresh all-empty ring on first use *)
Definition ring_at (N : nat) (l : list cpartition) (j : nat) : ring :=
  match nth_error l j with
  | Some pr => match pr_ring pr with Some w => w | None => new_ring N end
  | None => new_ring N
  end.

Definition gcp (N : nat) (l0 : list cpartition) (p cnt : Z) : list cpartition :=
  let l1 := if Z.of_nat (length l0) <=? p
            then l0 ++ repeat empty_partition (Z.to_nat cnt - length l0) else l0 in
  let i := Z.to_nat p in
  let pr := nth i l1 empty_partition in
  match pr_ring pr with
  | Some _ => l1
  | None => set_nth l1 i (mkCpartition (Some (new_ring N)) (pr_owner pr) (pr_client pr))
  end.

Lemma gcp_eq cf grp t p cnt :
  get_consumer_partition cf grp t p cnt =
  gcp (cf_intervals cf) (match get (g_topics grp) t with Some l => l | None => [] end) p cnt.
Proof. reflexivity. Qed.

Lemma Forall_new_ring (Q : coff -> Prop) N : Forall (optP Q) (new_ring N).
Proof. apply Forall_forall. intros x Hx. apply repeat_spec in Hx. subst. exact I. Qed.

Lemma gcp_ok P (tl : list bring) l0 p r b N :
  parts_ok P tl l0 -> 0 <= p -> nth_error tl (Z.to_nat p) = Some r -> last r None = Some b ->
  let parts := gcp N l0 p (Z.of_nat (length tl)) in
  parts_ok P tl parts /\
  (forall j, ring_at N parts j = ring_at N l0 j) /\
  exists pr, nth_error parts (Z.to_nat p) = Some pr /\ pr_ring pr = Some (ring_at N l0 (Z.to_nat p)) /\
             Forall (optP (P (Z.to_nat p))) (ring_at N l0 (Z.to_nat p)).
Proof.
  intros [Hlen Hp] Hp0 Hr Hb. unfold gcp.
  set (i := Z.to_nat p).
  set (l1 := if Z.of_nat (length l0) <=? p then l0 ++ repeat empty_partition (Z.to_nat (Z.of_nat (length tl)) - length l0) else l0).
  assert (Hi : (i < length tl)%nat) by (apply nth_error_Some; fold i in Hr; congruence).
  assert (Hext : exists n, l1 = l0 ++ repeat empty_partition n).
  { unfold l1. destruct (Z.of_nat (length l0) <=? p); [eexists; reflexivity|]. exists 0%nat. cbn. rewrite app_nil_r. reflexivity. }
  assert (Hl1 : (length l1 <= length tl)%nat /\ (i < length l1)%nat).
  { unfold l1. destruct (Z.of_nat (length l0) <=? p) eqn:E.
    - rewrite app_length, repeat_length. unfold bring in *. lia.
    - unfold bring in *. lia. }
  destruct Hl1 as [Hl1a Hl1b].
  assert (Hnth1 : forall j pr, nth_error l1 j = Some pr -> nth_error l0 j = Some pr \/ (nth_error l0 j = None /\ pr = empty_partition)).
  { destruct Hext as [n ->]. intros j pr Hj. destruct (lt_dec j (length l0)) as [Hl|Hl].
    - left. rewrite nth_error_app1 in Hj by exact Hl. exact Hj.
    - right. split; [apply nth_error_None; lia|]. rewrite nth_error_app2 in Hj by lia. eapply nth_error_repeat; exact Hj. }
  assert (Hnone1 : forall j, nth_error l1 j = None -> nth_error l0 j = None).
  { destruct Hext as [n ->]. intros j Hj. apply nth_error_None in Hj. apply nth_error_None. rewrite app_length in Hj. lia. }
  assert (Hra1 : forall j, ring_at N l1 j = ring_at N l0 j).
  { intros j. unfold ring_at. destruct (nth_error l1 j) as [pr|] eqn:E.
    - destruct (Hnth1 j pr E) as [-> |[-> ->]]; reflexivity.
    - rewrite (Hnone1 j E). reflexivity. }
  assert (Hok1 : parts_ok P tl l1).
  { split; [exact Hl1a|]. intros j pr Hj. destruct (Hnth1 j pr Hj) as [H|[_ ->]]; [apply Hp; exact H|].
    intros w Hw; discriminate. }
  set (pr := nth i l1 empty_partition).
  assert (Hpr : nth_error l1 i = Some pr) by (apply nth_nth_error; exact Hl1b).
  destruct (pr_ring pr) as [w|] eqn:Ew.
  - split; [exact Hok1|]. split; [exact Hra1|]. exists pr.
    assert (Ewr : ring_at N l0 i = w).
    { rewrite <- Hra1. unfold ring_at. rewrite Hpr, Ew. reflexivity. }
    rewrite Ewr. split; [exact Hpr|]. split; [exact Ew|].
    destruct Hok1 as [_ H1]. apply (H1 i pr Hpr w Ew).
  - assert (Ewr : ring_at N l0 i = new_ring N).
    { rewrite <- Hra1. unfold ring_at. rewrite Hpr, Ew. reflexivity. }
    split; [|split].
    + split; [rewrite length_set_nth; exact Hl1a|].
      intros j pr' Hj. apply nth_error_set_nth_inv in Hj. destruct Hj as [[-> ->]|[Hne Hj]].
      * intros w Hw. cbn in Hw. injection Hw as <-. split; [apply Forall_new_ring|]. exists r, b. auto.
      * destruct Hok1 as [_ H1]. apply H1; exact Hj.
    + intros j. rewrite <- Hra1. unfold ring_at. destruct (Nat.eq_dec j i) as [->|Hne].
      * rewrite nth_error_set_nth_eq by exact Hl1b. rewrite Hpr, Ew. reflexivity.
      * rewrite nth_error_set_nth_neq by congruence. reflexivity.
    + eexists. split; [apply nth_error_set_nth_eq; exact Hl1b|]. cbn. rewrite Ewr. split; [reflexivity|apply Forall_new_ring].
Qed.

(* ---- SetConsumerOffset ---- *)
Lemma last_In_some {A} (r : list (option A)) b : last r None = Some b -> In (Some b) r.
Proof.
  destruct r as [|x r] using rev_ind; [discriminate|]. rewrite last_last. intros ->. apply in_or_app. right. left. reflexivity.
Qed.

(* the partitions of (group, topic) in a cluster; [] when absent *)
Definition cons_topic (cl : cluster) (g t : Z) : list cpartition :=
  match get (cl_consumer cl) g with
  | Some grp => match get (g_topics grp) t with Some l => l | None => [] end
  | None => []
  end.

Lemma parts_ok_nil P tl : parts_ok P tl [].
Proof. split; [cbn; lia|]. intros [|i] pr H; discriminate. Qed.

Lemma commit_lag_spec b o : in_i64 b -> in_i64 o -> commit_lag b o = Z.max 0 (b - o) /\ 0 <= commit_lag b o < two64.
Proof.
  intros Hb Ho. unfold commit_lag. destruct (o <? b) eqn:E.
  - destruct (lag_cast_exact b o Hb Ho ltac:(lia)) as [-> H]. lia.
  - unfold two64. lia.
Qed.

Lemma current_lag_spec b o : in_i64 b -> in_i64 o -> current_lag b o = Z.max 0 (b - o) /\ 0 <= current_lag b o < two64.
Proof.
  intros Hb Ho. unfold current_lag. destruct (b <? o) eqn:E.
  - unfold two64. lia.
  - destruct (lag_cast_exact b o Hb Ho ltac:(lia)) as [-> H]. lia.
Qed.

(* what the expiry purge and DeleteGroup look at: a group's lastCommit and the keys of its topic map *)
Definition ginfo_cl (cl : cluster) (g : Z) : option (Z * list Z) :=
  option_map (fun grp => (g_last grp, keys (g_topics grp))) (get (cl_consumer cl) g).
Definition glast0 (G : option (Z * list Z)) : Z := match G with Some (L, _) => L | None => 0 end.
Definition gkeys0 (G : option (Z * list Z)) : list Z := match G with Some (_, ks) => ks | None => [] end.
Definition drop_key (t : Z) (ks : list Z) : list Z := filter (fun x => negb (x =? t)) ks.

Lemma keys_remove_eq {V} (m : amap V) k : keys (remove m k) = drop_key k (keys m).
Proof.
  unfold keys, remove, drop_key. induction m as [|[k' v] r IH]; cbn; [reflexivity|].
  destruct (k' =? k); cbn; [exact IH|f_equal; exact IH].
Qed.

Lemma ginfo_grp0 cl g :
  let grp0 := match get (cl_consumer cl) g with Some x => x | None => empty_group end in
  glast0 (ginfo_cl cl g) = g_last grp0 /\ gkeys0 (ginfo_cl cl g) = keys (g_topics grp0).
Proof. unfold ginfo_cl. destruct (get (cl_consumer cl) g); cbn; auto. Qed.

(* the four reasons for which addConsumerOffset drops a commit before it reaches the ring (unknown cluster, too old,
   rejected group, no broker offset for the partition); otherwise the broker offset the lag is computed against *)
Definition reaches_ring (cf : config) (now : Z) (st : state) (c g t p ts : Z) : option Z :=
  match get st c with
  | None => None
  | Some cl =>
      if too_old cf now ts then None
      else if negb (cf_accept cf g) then None
      else let '(boff, cnt) := get_broker_offset cl t p in
           if cnt =? 0 then None else Some boff
  end.

Lemma aco_inv cf now st c cl g t p off order ts lb P :
  let N := cf_intervals cf in
  let i := Z.to_nat p in
  get st c = Some cl -> cinv N lb P cl ->
  (forall boff (app : bool) e, 0 <= p -> lb t p = Some boff -> in_i64 boff ->
     new_entry (mkCommit off order ts) (if app then Some (commit_lag boff off) else None) e -> P g t i e) ->
  (reaches_ring cf now st c g t p ts = None /\ add_consumer_offset cf now st c g t p off order ts = Done st RNone) \/
  exists cl' boff w' app,
    reaches_ring cf now st c g t p ts = Some boff /\
    add_consumer_offset cf now st c g t p off order ts = Done (set st c cl') RNone /\
    cinv N lb P cl' /\ cl_broker cl' = cl_broker cl /\
    lb t p = Some boff /\ in_i64 boff /\ 0 <= p /\
    ring_step (cf_min_distance cf) (ring_at N (cons_topic cl g t) i) (mkCommit off order ts) (commit_lag boff off) = (w', app) /\
    ring_at N (cons_topic cl' g t) i = w' /\
    (forall g' t' j, (g' <> g \/ t' <> t \/ j <> i) -> ring_at N (cons_topic cl' g' t') j = ring_at N (cons_topic cl g' t') j) /\
    (forall g', ginfo_cl cl' g' =
                if g' =? g then Some ((if commit_stored (ring_at N (cons_topic cl g t) i) order then Z.max ts (glast0 (ginfo_cl cl g)) else glast0 (ginfo_cl cl g)), t :: drop_key t (gkeys0 (ginfo_cl cl g)))
                else ginfo_cl cl g').
Proof.
  intros N i Hc [Hb Hg] Hnew. unfold add_consumer_offset, reaches_ring. rewrite Hc.
  destruct (too_old cf now ts); [left; split; reflexivity|].
  destruct (negb (cf_accept cf g)); [left; split; reflexivity|].
  destruct (get_broker_offset cl t p) as [boff cnt] eqn:Eg.
  destruct (cnt =? 0) eqn:Ecnt; [left; split; reflexivity|].
  right. apply gbo_spec in Eg; [|lia]. destruct Eg as (tl & r & Htl & Hp0 & Hr & Hlast & -> & Hlt).
  destruct (Hb t tl Htl) as [HFb HLb].
  assert (Hlbp : lb t p = Some boff).
  { replace p with (Z.of_nat (Z.to_nat p)) by lia. eapply HLb; eauto. }
  assert (Hboff : in_i64 boff).
  { rewrite Forall_forall in HFb. destruct (HFb r (nth_error_In _ _ Hr)) as [_ HFr].
    rewrite Forall_forall in HFr. apply (HFr (Some boff)). apply last_In_some. exact Hlast. }
  set (grp := match get (cl_consumer cl) g with Some x => x | None => empty_group end).
  assert (Hgrp : group_ok (P g) (cl_broker cl) grp).
  { unfold grp. destruct (get (cl_consumer cl) g) eqn:E; [apply Hg; exact E|apply group_ok_empty]. }
  assert (El0 : match get (g_topics grp) t with Some l => l | None => [] end = cons_topic cl g t).
  { unfold cons_topic, grp. destruct (get (cl_consumer cl) g); reflexivity. }
  rewrite gcp_eq, El0.
  assert (Hl0 : parts_ok (P g t) tl (cons_topic cl g t)).
  { rewrite <- El0. destruct Hgrp as [_ Hgt]. destruct (get (g_topics grp) t) as [l|] eqn:E; [|apply parts_ok_nil].
    destruct (Hgt t l E) as (tl' & Htl' & Hok). assert (tl' = tl) by congruence. subst tl'. exact Hok. }
  destruct (gcp_ok (P g t) tl (cons_topic cl g t) p r boff N Hl0 Hp0 Hr Hlast) as (Hparts & Hra & pr & Hpr & Hprw & HFw).
  fold N. fold i in Hpr, Hprw, HFw |- *.
  set (parts := gcp N (cons_topic cl g t) p (Z.of_nat (length tl))) in *.
  rewrite (nth_error_nth parts i empty_partition Hpr). rewrite Hprw.
  destruct (ring_step (cf_min_distance cf) (ring_at N (cons_topic cl g t) i) (mkCommit off order ts) (commit_lag boff off))
    as [w' app] eqn:Ers.
  set (parts' := set_nth parts i (mkCpartition (Some w') (pr_owner pr) (pr_client pr))).
  set (grp' := mkCgroup (set (g_topics grp) t parts') (if commit_stored (ring_at N (cons_topic cl g t) i) order then Z.max ts (g_last grp) else g_last grp)).
  exists (mkCluster (cl_broker cl) (set (cl_consumer cl) g grp')), boff, w', app.
  assert (Hilen : (i < length parts)%nat) by (apply nth_error_Some; congruence).
  assert (Hparts' : parts_ok (P g t) tl parts').
  { destruct Hparts as [Hpl Hpp]. split; [unfold parts'; rewrite length_set_nth; exact Hpl|].
    intros j pr' Hj. apply nth_error_set_nth_inv in Hj. destruct Hj as [[-> ->]|[Hne Hj]]; [|apply Hpp; exact Hj].
    intros w Hw. cbn in Hw. injection Hw as <-. split; [|exists r, boff; auto].
    apply Forall_forall. intros s Hs. destruct (ring_step_slots _ _ _ _ _ _ s Ers Hs) as [Hin|(e & -> & He)].
    - rewrite Forall_forall in HFw. apply HFw; exact Hin.
    - cbn. eapply Hnew; eauto. }
  split; [reflexivity|]. split; [reflexivity|]. split; [|split; [reflexivity|]].
  - split; [exact Hb|]. cbn [cl_broker cl_consumer]. intros g' grp0 Hg'.
    apply get_set_inv in Hg'. destruct Hg' as [[-> ->]|[Hne Hg']]; [|apply Hg; exact Hg'].
    destruct Hgrp as [Hnd Hgt]. split; [apply NoDup_keys_set; exact Hnd|].
    cbn [g_topics]. intros t' ps Ht'. apply get_set_inv in Ht'. destruct Ht' as [[-> ->]|[Hne Ht']]; [|apply Hgt; exact Ht'].
    exists tl. split; [exact Htl|exact Hparts'].
  - split; [exact Hlbp|]. split; [exact Hboff|]. split; [exact Hp0|]. split; [exact Ers|]. split; [|split].
    3:{ intros g'. unfold ginfo_cl at 1. cbn [cl_consumer]. destruct (g' =? g) eqn:Eg'.
        - apply Z.eqb_eq in Eg'. subst g'. rewrite get_set_eq. cbn [option_map]. unfold grp'. cbn [g_last g_topics].
          destruct (ginfo_grp0 cl g) as [E1 E2]. fold grp in E1, E2. rewrite E1, E2, <- keys_remove_eq. reflexivity.
        - apply Z.eqb_neq in Eg'. rewrite get_set_neq by congruence. reflexivity. }
    + unfold cons_topic. cbn [cl_consumer]. rewrite get_set_eq. unfold grp'. cbn [g_topics]. rewrite get_set_eq.
      unfold ring_at, parts'. rewrite nth_error_set_nth_eq by exact Hilen. reflexivity.
    + intros g' t' j Hd. unfold cons_topic at 1. cbn [cl_consumer].
      destruct (Z.eq_dec g' g) as [->|Hgne]; [|rewrite get_set_neq by congruence; reflexivity].
      rewrite get_set_eq. unfold grp'. cbn [g_topics].
      destruct (Z.eq_dec t' t) as [->|Htne].
      * rewrite get_set_eq. destruct (Nat.eq_dec j i) as [->|Hjne]; [exfalso; destruct Hd as [?|[?|?]]; congruence|].
        unfold ring_at at 1. unfold parts'. rewrite nth_error_set_nth_neq by congruence.
        fold (ring_at N parts j). apply Hra.
      * rewrite get_set_neq by congruence. unfold cons_topic, grp. destruct (get (cl_consumer cl) g); reflexivity.
Qed.

(* ---- SetConsumerOwner / ClearConsumerOwners ---- *)
Lemma aown_inv cf st c cl g t p owner client lb P :
  let N := cf_intervals cf in
  get st c = Some cl -> cinv N lb P cl ->
  (cf_accept cf g = false /\ add_consumer_owner cf st c g t p owner client = Done st RNone) \/
  exists cl', cf_accept cf g = true /\ add_consumer_owner cf st c g t p owner client = Done (set st c cl') RNone /\
              cinv N lb P cl' /\ cl_broker cl' = cl_broker cl /\
              (forall g' t' j, ring_at N (cons_topic cl' g' t') j = ring_at N (cons_topic cl g' t') j) /\
              (forall g', ginfo_cl cl' g' =
                 if g' =? g
                 then Some (glast0 (ginfo_cl cl g),
                            if snd (get_broker_offset cl t p) =? 0 then gkeys0 (ginfo_cl cl g)
                            else t :: drop_key t (gkeys0 (ginfo_cl cl g)))
                 else ginfo_cl cl g').
Proof.
  intros N Hc [Hb Hg]. unfold add_consumer_owner. rewrite Hc.
  destruct (cf_accept cf g) eqn:Eacc; cbn [negb]; [|left; split; reflexivity]. right.
  set (grp := match get (cl_consumer cl) g with Some x => x | None => empty_group end).
  assert (Hgrp : group_ok (P g) (cl_broker cl) grp).
  { unfold grp. destruct (get (cl_consumer cl) g) eqn:E; [apply Hg; exact E|apply group_ok_empty]. }
  assert (Ect : forall t', match get (g_topics grp) t' with Some l => l | None => [] end = cons_topic cl g t').
  { intros t'. unfold cons_topic, grp. destruct (get (cl_consumer cl) g); reflexivity. }
  destruct (get_broker_offset cl t p) as [boff cnt] eqn:Eg.
  destruct (cnt =? 0) eqn:Ecnt.
  - exists (mkCluster (cl_broker cl) (set (cl_consumer cl) g grp)). split; [reflexivity|]. split; [reflexivity|]. split; [|split; [reflexivity|split]].
    + split; [exact Hb|]. cbn [cl_broker cl_consumer]. intros g' grp0 Hg'.
      apply get_set_inv in Hg'. destruct Hg' as [[-> ->]|[Hne Hg']]; [exact Hgrp|apply Hg; exact Hg'].
    + intros g' t' j. unfold cons_topic at 1. cbn [cl_consumer].
      destruct (Z.eq_dec g' g) as [->|Hgne]; [|rewrite get_set_neq by congruence; reflexivity].
      rewrite get_set_eq, Ect. reflexivity.
    + intros g'. cbn [snd]. rewrite Ecnt. unfold ginfo_cl at 1. cbn [cl_consumer]. destruct (g' =? g) eqn:Eg'.
      * apply Z.eqb_eq in Eg'. subst g'. rewrite get_set_eq. cbn [option_map].
        destruct (ginfo_grp0 cl g) as [E1 E2]. fold grp in E1, E2. rewrite E1, E2. reflexivity.
      * apply Z.eqb_neq in Eg'. rewrite get_set_neq by congruence. reflexivity.
  - apply gbo_spec in Eg; [|lia]. destruct Eg as (tl & r & Htl & Hp0 & Hr & Hlast & -> & Hlt).
    rewrite gcp_eq, Ect.
    assert (Hl0 : parts_ok (P g t) tl (cons_topic cl g t)).
    { rewrite <- Ect. destruct Hgrp as [_ Hgt]. destruct (get (g_topics grp) t) as [l|] eqn:E; [|apply parts_ok_nil].
      destruct (Hgt t l E) as (tl' & Htl' & Hok). assert (tl' = tl) by congruence. subst tl'. exact Hok. }
    set (i := Z.to_nat p).
    destruct (gcp_ok (P g t) tl (cons_topic cl g t) p r boff N Hl0 Hp0 Hr Hlast) as (Hparts & Hra & pr & Hpr & Hprw & HFw).
    fold N. fold i in Hpr, Hprw, HFw |- *.
    set (parts := gcp N (cons_topic cl g t) p (Z.of_nat (length tl))) in *.
    rewrite (nth_error_nth parts i empty_partition Hpr).
    set (parts' := set_nth parts i (mkCpartition (pr_ring pr) owner client)).
    set (grp' := mkCgroup (set (g_topics grp) t parts') (g_last grp)).
    exists (mkCluster (cl_broker cl) (set (cl_consumer cl) g grp')).
    assert (Hilen : (i < length parts)%nat) by (apply nth_error_Some; congruence).
    assert (Hparts' : parts_ok (P g t) tl parts').
    { destruct Hparts as [Hpl Hpp]. split; [unfold parts'; rewrite length_set_nth; exact Hpl|].
      intros j pr' Hj. apply nth_error_set_nth_inv in Hj. destruct Hj as [[-> ->]|[Hne Hj]]; [|apply Hpp; exact Hj].
      intros w Hw. cbn in Hw. apply (Hpp i pr Hpr w Hw). }
    split; [reflexivity|]. split; [reflexivity|]. split; [|split; [reflexivity|split]].
    + split; [exact Hb|]. cbn [cl_broker cl_consumer]. intros g' grp0 Hg'.
      apply get_set_inv in Hg'. destruct Hg' as [[-> ->]|[Hne Hg']]; [|apply Hg; exact Hg'].
      destruct Hgrp as [Hnd Hgt]. split; [apply NoDup_keys_set; exact Hnd|].
      cbn [g_topics]. intros t' ps Ht'. apply get_set_inv in Ht'. destruct Ht' as [[-> ->]|[Hne Ht']]; [|apply Hgt; exact Ht'].
      exists tl. split; [exact Htl|exact Hparts'].
    + intros g' t' j. unfold cons_topic at 1. cbn [cl_consumer].
      destruct (Z.eq_dec g' g) as [->|Hgne]; [|rewrite get_set_neq by congruence; reflexivity].
      rewrite get_set_eq. unfold grp'. cbn [g_topics].
      destruct (Z.eq_dec t' t) as [->|Htne]; [|rewrite get_set_neq by congruence; rewrite Ect; reflexivity].
      rewrite get_set_eq. rewrite <- Hra. unfold ring_at, parts'.
      destruct (Nat.eq_dec j i) as [->|Hjne].
      * rewrite nth_error_set_nth_eq by exact Hilen. rewrite Hpr. reflexivity.
      * rewrite nth_error_set_nth_neq by congruence. reflexivity.
    + intros g'. cbn [snd]. rewrite Ecnt. unfold ginfo_cl at 1. cbn [cl_consumer]. destruct (g' =? g) eqn:Eg'.
      * apply Z.eqb_eq in Eg'. subst g'. rewrite get_set_eq. cbn [option_map]. unfold grp'. cbn [g_last g_topics].
        destruct (ginfo_grp0 cl g) as [E1 E2]. fold grp in E1, E2. rewrite E1, E2, <- keys_remove_eq. reflexivity.
      * apply Z.eqb_neq in Eg'. rewrite get_set_neq by congruence. reflexivity.
Qed.

Lemma clear_inv cf st c cl g lb P :
  let N := cf_intervals cf in
  get st c = Some cl -> cinv N lb P cl ->
  clear_consumer_owners cf st c g = Done st RNone \/
  exists cl', clear_consumer_owners cf st c g = Done (set st c cl') RNone /\
              cinv N lb P cl' /\ cl_broker cl' = cl_broker cl /\
              (forall g' t' j, ring_at N (cons_topic cl' g' t') j = ring_at N (cons_topic cl g' t') j) /\
              (forall g', ginfo_cl cl' g' = ginfo_cl cl g').
Proof.
  intros N Hc [Hb Hg]. unfold clear_consumer_owners. rewrite Hc.
  destruct (negb (cf_accept cf g)); [left; reflexivity|].
  destruct (get (cl_consumer cl) g) as [grp|] eqn:Egr; [|left; reflexivity]. right.
  exists (mkCluster (cl_broker cl) (set (cl_consumer cl) g (clear_owners_group grp))).
  split; [reflexivity|]. split; [|split; [reflexivity|split]].
  3:{ intros g'. unfold ginfo_cl. cbn [cl_consumer]. destruct (Z.eq_dec g' g) as [->|Hne].
      - rewrite get_set_eq, Egr. unfold clear_owners_group. cbn [option_map g_last g_topics]. rewrite keys_map_vals. reflexivity.
      - rewrite get_set_neq by congruence. reflexivity. }
  - split; [exact Hb|]. cbn [cl_broker cl_consumer]. intros g' grp0 Hg'.
    apply get_set_inv in Hg'. destruct Hg' as [[-> ->]|[Hne Hg']]; [|apply Hg; exact Hg'].
    destruct (Hg g grp Egr) as [Hnd Hgt]. unfold clear_owners_group. split; cbn [g_topics].
    + apply NoDup_keys_map_vals. exact Hnd.
    + intros t ps Ht. rewrite get_map_vals in Ht. destruct (get (g_topics grp) t) as [l|] eqn:El; [|discriminate].
      cbn in Ht. injection Ht as <-. destruct (Hgt t l El) as (tl & Htl & [Hlen Hpp]). exists tl. split; [exact Htl|].
      split; [rewrite map_length; exact Hlen|].
      intros j pr Hj. rewrite nth_error_map in Hj. destruct (nth_error l j) as [pr0|] eqn:Ej; [|discriminate].
      cbn in Hj. injection Hj as <-. intros w Hw. cbn in Hw. apply (Hpp j pr0 Ej w Hw).
  - intros g' t' j. unfold cons_topic. cbn [cl_consumer].
    destruct (Z.eq_dec g' g) as [->|Hgne]; [|rewrite get_set_neq by congruence; reflexivity].
    rewrite get_set_eq, Egr. unfold clear_owners_group. cbn [g_topics]. rewrite get_map_vals.
    destruct (get (g_topics grp) t') as [l|]; [|reflexivity]. cbn [option_map].
    unfold ring_at. rewrite nth_error_map. destruct (nth_error l j) as [pr0|]; reflexivity.
Qed.

(* ---- deletions (DeleteTopic, DeleteGroup, lazy expiry inside FetchConsumer) ---- *)
(* every offsets ring is either untouched or gone (a later commit would start from a fresh ring) *)
Definition rings_kept (N : nat) (cl cl' : cluster) : Prop :=
  forall g t j, ring_at N (cons_topic cl' g t) j = ring_at N (cons_topic cl g t) j \/
                ring_at N (cons_topic cl' g t) j = new_ring N.

Lemma ring_at_nil N j : ring_at N [] j = new_ring N.
Proof. unfold ring_at. destruct j; reflexivity. Qed.

Lemma group_ok_remove_topic P br grp t x : group_ok P br grp -> group_ok P br (mkCgroup (remove (g_topics grp) t) x).
Proof.
  intros [Hnd Hgt]. split; cbn [g_topics]; [apply NoDup_keys_remove; exact Hnd|].
  intros t' ps Ht'. apply get_remove_inv in Ht'. destruct Ht' as [_ Ht']. apply Hgt; exact Ht'.
Qed.

Lemma cinv_remove_group N lb P cl g :
  cinv N lb P cl ->
  cinv N lb P (mkCluster (cl_broker cl) (remove (cl_consumer cl) g)) /\
  rings_kept N cl (mkCluster (cl_broker cl) (remove (cl_consumer cl) g)).
Proof.
  intros [Hb Hg]. split.
  - split; [exact Hb|]. cbn [cl_broker cl_consumer]. intros g' grp Hg'. apply get_remove_inv in Hg'. apply Hg. tauto.
  - intros g' t j. unfold cons_topic at 1 3. cbn [cl_consumer]. destruct (Z.eq_dec g' g) as [->|Hne].
    + right. rewrite get_remove_eq. apply ring_at_nil.
    + left. rewrite get_remove_neq by congruence. reflexivity.
Qed.

Lemma dtopic_inv cf st c cl t lb P :
  let N := cf_intervals cf in
  get st c = Some cl -> cinv N lb P cl ->
  exists cl', delete_topic st c t = Done (set st c cl') RNone /\ cinv N lb P cl' /\ rings_kept N cl cl'.
Proof.
  intros N Hc [Hb Hg]. unfold delete_topic. rewrite Hc. eexists. split; [reflexivity|]. split; [split|].
  - cbn [cl_broker]. intros t' tl Ht'. apply get_remove_inv in Ht'. apply Hb. tauto.
  - cbn [cl_broker cl_consumer]. intros g grp' Hg'. rewrite get_map_vals in Hg'.
    destruct (get (cl_consumer cl) g) as [grp|] eqn:Egr; [|discriminate]. cbn in Hg'. injection Hg' as <-.
    destruct (Hg g grp Egr) as [Hnd Hgt]. split; cbn [g_topics]; [apply NoDup_keys_remove; exact Hnd|].
    intros t' ps Ht'. apply get_remove_inv in Ht'. destruct Ht' as [Hne Ht'].
    destruct (Hgt t' ps Ht') as (tl & Htl & Hok). exists tl. split; [|exact Hok].
    rewrite get_remove_neq by congruence. exact Htl.
  - intros g t' j. unfold cons_topic at 1 3. cbn [cl_consumer]. rewrite get_map_vals.
    destruct (get (cl_consumer cl) g) as [grp|] eqn:Egr; cbn [option_map g_topics].
    + destruct (Z.eq_dec t' t) as [->|Hne].
      * right. rewrite get_remove_eq. apply ring_at_nil.
      * left. rewrite get_remove_neq by congruence. unfold cons_topic. rewrite Egr. reflexivity.
    + left. unfold cons_topic. rewrite Egr. reflexivity.
Qed.

Lemma dgroup_inv cf st c cl g t lb P :
  let N := cf_intervals cf in
  get st c = Some cl -> cinv N lb P cl ->
  delete_group st c g t = Done st RNone \/
  exists cl', delete_group st c g t = Done (set st c cl') RNone /\ cinv N lb P cl' /\
              cl_broker cl' = cl_broker cl /\ rings_kept N cl cl'.
Proof.
  intros N Hc Hinv. unfold delete_group. rewrite Hc.
  destruct (get (cl_consumer cl) g) as [grp|] eqn:Egr; [|left; reflexivity]. right.
  destruct (cinv_remove_group N lb P cl g Hinv) as [Hrm Hrk].
  destruct (t =? 0); [eexists; split; [reflexivity|]; split; [exact Hrm|split; [reflexivity|exact Hrk]]|].
  assert (Hset : exists cl', Done (set st c (mkCluster (cl_broker cl) (set (cl_consumer cl) g
                                 (mkCgroup (remove (g_topics grp) t) (g_last grp))))) RNone = Done (set st c cl') RNone /\
                             cinv N lb P cl' /\ cl_broker cl' = cl_broker cl /\ rings_kept N cl cl').
  2:{ destruct (remove (g_topics grp) t) as [|kv rest] eqn:Erm; [|exact Hset].
      destruct (get (g_topics grp) t); [|exact Hset].
      eexists; split; [reflexivity|]; split; [exact Hrm|split; [reflexivity|exact Hrk]]. }
  eexists. split; [reflexivity|]. destruct Hinv as [Hb Hg]. split; [split|split; [reflexivity|]].
  - exact Hb.
  - cbn [cl_broker cl_consumer]. intros g' grp0 Hg'.
    apply get_set_inv in Hg'. destruct Hg' as [[-> ->]|[Hne Hg']]; [|apply Hg; exact Hg'].
    apply group_ok_remove_topic. apply Hg; exact Egr.
  - intros g' t' j. unfold cons_topic at 1 3. cbn [cl_consumer]. destruct (Z.eq_dec g' g) as [->|Hne].
    + rewrite get_set_eq. cbn [g_topics]. destruct (Z.eq_dec t' t) as [->|Htne].
      * right. rewrite get_remove_eq. apply ring_at_nil.
      * left. rewrite get_remove_neq by congruence. unfold cons_topic. rewrite Egr. reflexivity.
    + left. rewrite get_set_neq by congruence. reflexivity.
Qed.

(* ---- FetchConsumer ---- *)
Lemma add_lags_spec tl cps : forall k res,
  add_lags tl k cps = Some res ->
  forall j cp', nth_error res j = Some cp' ->
    exists cp, nth_error cps j = Some cp /\
               match nth_error tl (k + j) with Some r => add_lag r cp = Some cp' | None => cp' = cp end.
Proof.
  induction cps as [|cp rest IH]; intros k res H; cbn [add_lags] in H.
  - injection H as <-. intros [|j] cp' Hj; discriminate.
  - assert (Hrest : forall rest' j cp', add_lags tl (S k) rest = Some rest' -> nth_error rest' j = Some cp' ->
              exists cp0, nth_error rest j = Some cp0 /\
                match nth_error tl (k + S j) with Some r => add_lag r cp0 = Some cp' | None => cp' = cp0 end).
    { intros rest' j cp' E2 Hj. destruct (IH (S k) rest' E2 j cp' Hj) as (cp0 & H1 & H2). exists cp0.
      replace (k + S j)%nat with (S k + j)%nat by lia. auto. }
    destruct (nth_error tl k) as [r|] eqn:Er.
    + destruct (add_lag r cp) as [cp1|] eqn:E1; [|discriminate].
      destruct (add_lags tl (S k) rest) as [rest'|] eqn:E2; [|discriminate].
      injection H as <-. intros [|j] cp' Hj; cbn in Hj.
      * injection Hj as <-. exists cp. rewrite Nat.add_0_r, Er. auto.
      * apply (Hrest rest' j cp' eq_refl Hj).
    + destruct (add_lags tl (S k) rest) as [rest'|] eqn:E2; [|discriminate].
      injection H as <-. intros [|j] cp' Hj; cbn in Hj.
      * injection Hj as <-. exists cp. rewrite Nat.add_0_r, Er. auto.
      * apply (Hrest rest' j cp' eq_refl Hj).
Qed.

(* since /repo 54faa50 the lag loop of fetchConsumer has no panic site left *)
Lemma add_lag_total r cp : add_lag r cp <> None.
Proof.
  unfold add_lag. destruct (cp_offsets cp); [discriminate|]. destruct (somes r); [discriminate|].
  destruct (last (o :: l) None); discriminate.
Qed.

Lemma add_lags_ok tl cps : forall k, add_lags tl k cps <> None.
Proof.
  induction cps as [|cp rest IH]; intros k; cbn [add_lags]; [discriminate|].
  pose proof (IH (S k)) as H2.
  destruct (nth_error tl k) as [r|].
  - pose proof (add_lag_total r cp). destruct (add_lag r cp); [|congruence]. destruct (add_lags tl (S k) rest); congruence.
  - destruct (add_lags tl (S k) rest); congruence.
Qed.

Lemma fetch_topics_lags_spec br tops : forall l,
  fetch_topics_lags br tops = Some l ->
  forall t cps', In (t, cps') l ->
    exists cps, In (t, cps) tops /\
                match get br t with None => cps' = cps | Some tl => add_lags tl 0 cps = Some cps' end.
Proof.
  induction tops as [|[t0 cps0] rest IH]; intros l H; cbn [fetch_topics_lags] in H.
  - injection H as <-. intros t cps' [].
  - destruct (match get br t0 with Some tl => add_lags tl 0 cps0 | None => Some cps0 end) as [h|] eqn:Eh; [|discriminate].
    destruct (fetch_topics_lags br rest) as [rest'|] eqn:Er; [|discriminate].
    injection H as <-. intros t cps' [E|Hin].
    + injection E as <- <-. exists cps0. split; [left; reflexivity|].
      destruct (get br t0); [exact Eh|congruence].
    + destruct (IH rest' eq_refl t cps' Hin) as (cps & Hc & Hm). exists cps. split; [right; exact Hc|exact Hm].
Qed.

Lemma fetch_topics_lags_ok br tops :
  (forall t cps, In (t, cps) tops -> match get br t with None => True | Some tl => add_lags tl 0 cps <> None end) ->
  fetch_topics_lags br tops <> None.
Proof.
  induction tops as [|[t0 cps0] rest IH]; intros H; cbn [fetch_topics_lags]; [discriminate|].
  assert (H0 := H t0 cps0 (or_introl eq_refl)).
  assert (Hr : fetch_topics_lags br rest <> None) by (apply IH; intros t cps Hin; apply H; right; exact Hin).
  destruct (get br t0) as [tl|].
  - destruct (add_lags tl 0 cps0); [|congruence]. destruct (fetch_topics_lags br rest); congruence.
  - destruct (fetch_topics_lags br rest); congruence.
Qed.

(* one partition of the reply *)
Lemma add_lag_snapshot r pr cp' :
  add_lag r (snapshot_partition pr) = Some cp' ->
  cp_brokers cp' = somes r /\ cp_owner cp' = pr_owner pr /\ cp_client cp' = pr_client pr /\
  match pr_ring pr with
  | None => cp_offsets cp' = [] /\ cp_lag cp' = 0
  | Some w => cp_offsets cp' = rev w /\
              forall b, last r None = Some b ->
                        cp_lag cp' = match hd None w with Some lo => current_lag b (co_offset lo) | None => 0 end
  end.
Proof.
  unfold add_lag, snapshot_partition. cbn [cp_offsets cp_brokers cp_owner cp_client cp_lag].
  destruct (pr_ring pr) as [w|].
  - unfold readout. pose proof (last_rev_hd w None) as Hl. destruct (rev w) as [|o0 orest] eqn:Erev.
    + intros H. injection H as <-. cbn. repeat split; auto. intros b _.
      destruct w as [|x w']; [reflexivity|]. cbn in Erev. apply app_eq_nil in Erev. destruct Erev; discriminate.
    + destruct (somes r) as [|b0 brest] eqn:Es.
      { intros H. injection H as <-. cbn [cp_offsets cp_brokers cp_owner cp_client cp_lag]. repeat split; auto.
        intros b Hb. destruct (somes_last r b Hb) as [Hne _]. congruence. }
      rewrite Hl. destruct (hd None w) as [lo|].
      * intros H. injection H as <-. cbn [cp_offsets cp_brokers cp_owner cp_client cp_lag]. repeat split; auto. intros b Hb.
        destruct (somes_last r b Hb) as [_ Hlast]. rewrite Es in Hlast. rewrite <- (Hlast b0). reflexivity.
      * intros H. injection H as <-. cbn. repeat split; auto.
  - intros H. injection H as <-. cbn. repeat split; auto.
Qed.

Definition snap (grp : cgroup) : list (Z * list cpart) :=
  map (fun tp => (fst tp, map snapshot_partition (snd tp))) (g_topics grp).

Lemma in_snap grp t cps : In (t, cps) (snap grp) -> exists parts, In (t, parts) (g_topics grp) /\ cps = map snapshot_partition parts.
Proof.
  unfold snap. intros H. apply in_map_iff in H. destruct H as ([t0 parts] & E & Hin). cbn in E. injection E as <- <-.
  exists parts. auto.
Qed.

Lemma fetch_inv cf now st c cl g lb P :
  let N := cf_intervals cf in
  get st c = Some cl -> cinv N lb P cl ->
  fetch_consumer cf now st c g = Done st RNil \/
  (exists cl', fetch_consumer cf now st c g = Done (set st c cl') RNil /\ cinv N lb P cl' /\
               cl_broker cl' = cl_broker cl /\ rings_kept N cl cl') \/
  (exists grp l, get (cl_consumer cl) g = Some grp /\ fetch_consumer cf now st c g = Done st (RConsumer l) /\
                 fetch_topics_lags (cl_broker cl) (snap grp) = Some l).
Proof.
  intros N Hc Hinv. unfold fetch_consumer. rewrite Hc.
  destruct (get (cl_consumer cl) g) as [grp|] eqn:Egr; [|left; reflexivity].
  destruct (expired cf now (g_last grp)).
  - right. left. destruct (cinv_remove_group N lb P cl g Hinv) as [Hrm Hrk].
    eexists. split; [reflexivity|]. split; [exact Hrm|]. split; [reflexivity|exact Hrk].
  - right. right. fold (snap grp).
    assert (Hok : fetch_topics_lags (cl_broker cl) (snap grp) <> None).
    { apply fetch_topics_lags_ok. intros t cps _. destruct (get (cl_broker cl) t); [apply add_lags_ok|exact I]. }
    destruct (fetch_topics_lags (cl_broker cl) (snap grp)) as [l|] eqn:El; [|congruence].
    exists grp, l. auto.
Qed.

(* what a FetchConsumer reply says about one partition, in terms of the state *)
Lemma fetch_reply_spec N lb P cl g grp l t cps i cp :
  cinv N lb P cl -> get (cl_consumer cl) g = Some grp ->
  fetch_topics_lags (cl_broker cl) (snap grp) = Some l ->
  In (t, cps) l -> nth_error cps i = Some cp ->
  exists pr, nth_error (cons_topic cl g t) i = Some pr /\
    cp_owner cp = pr_owner pr /\ cp_client cp = pr_client pr /\
    match pr_ring pr with
    | None => cp_offsets cp = [] /\ cp_lag cp = 0
    | Some w => exists b, lb t (Z.of_nat i) = Some b /\ in_i64 b /\ cp_offsets cp = rev w /\
                          Forall (optP (P g t i)) w /\ (forall d, last (cp_brokers cp) d = b) /\
                          cp_lag cp = match hd None w with Some lo => current_lag b (co_offset lo) | None => 0 end
    end.
Proof.
  intros [Hb Hg] Egr El Hin Hi.
  destruct (fetch_topics_lags_spec _ _ _ El t cps Hin) as (cps0 & Hin0 & Hm).
  destruct (in_snap grp t cps0 Hin0) as (parts & Hp & ->).
  destruct (Hg g grp Egr) as [Hnd Hgt]. pose proof (in_get _ _ _ Hnd Hp) as Hget.
  destruct (Hgt t parts Hget) as (tl & Htl & [Hlen Hpp]). rewrite Htl in Hm.
  destruct (add_lags_spec _ _ _ _ Hm i cp Hi) as (cp0 & Hcp0 & Hal). cbn [Nat.add] in Hal.
  rewrite nth_error_map in Hcp0. destruct (nth_error parts i) as [pr|] eqn:Ej; [|discriminate].
  cbn in Hcp0. injection Hcp0 as <-.
  assert (Hil : (i < length tl)%nat).
  { assert (i < length parts)%nat by (apply nth_error_Some; congruence). unfold bring in *. lia. }
  destruct (nth_error tl i) as [r|] eqn:Hr; [|apply nth_error_None in Hr; unfold bring in *; lia].
  exists pr. split; [unfold cons_topic; rewrite Egr, Hget; exact Ej|].
  destruct (add_lag_snapshot r pr cp Hal) as (Hbr & Hown & Hcli & Hring).
  split; [exact Hown|]. split; [exact Hcli|].
  destruct (pr_ring pr) as [w|] eqn:Ew; [|exact Hring].
  destruct Hring as [Hoffs Hlag]. destruct (Hpp i pr Ej w Ew) as (HFw & r' & b & Hr' & Hbv).
  assert (r' = r) by congruence. subst r'.
  destruct (Hb t tl Htl) as [HFb HLb].
  exists b. split; [eapply HLb; eauto|]. split.
  { rewrite Forall_forall in HFb. destruct (HFb r (nth_error_In _ _ Hr)) as [_ HFr].
    rewrite Forall_forall in HFr. apply (HFr (Some b)). apply last_In_some. exact Hbv. }
  split; [exact Hoffs|]. split; [exact HFw|]. split; [|apply Hlag; exact Hbv].
  intros d. rewrite Hbr. apply (somes_last r b Hbv).
Qed.

(* ================================================================================================ *)
(* 3. histories                                                                                     *)
(* ================================================================================================ *)

Definition hist := list (Z * req).

Lemma run_app cf st h1 h2 :
  run cf st (h1 ++ h2) =
  match run cf st h1 with
  | Some (st1, r1) => match run cf st1 h2 with Some (st2, r2) => Some (st2, r1 ++ r2) | None => None end
  | None => None
  end.
Proof.
  revert st. induction h1 as [|[now r] h1 IH]; intros st; cbn [run app].
  - destruct (run cf st h2) as [[st2 r2]|]; reflexivity.
  - destruct (step cf now st r) as [st' rep|]; [|reflexivity]. rewrite IH.
    destruct (run cf st' h1) as [[st1 r1]|]; [|reflexivity].
    destruct (run cf st1 h2) as [[st2 r2]|]; reflexivity.
Qed.

Lemma run_snoc cf st h now r :
  run cf st (h ++ [(now, r)]) =
  match run cf st h with
  | Some (st1, r1) => match step cf now st1 r with Done st2 rep => Some (st2, r1 ++ [rep]) | Crashed => None end
  | None => None
  end.
Proof.
  rewrite run_app. destruct (run cf st h) as [[st1 r1]|]; [|reflexivity]. cbn [run].
  destruct (step cf now st1 r); reflexivity.
Qed.

Lemma run_length cf st h st' reps : run cf st h = Some (st', reps) -> length reps = length h.
Proof.
  revert st st' reps. induction h as [|[now r] h IH]; intros st st' reps H; cbn [run] in H.
  - injection H as <- <-. reflexivity.
  - destruct (step cf now st r) as [s1 rep|]; [|discriminate].
    destruct (run cf s1 h) as [[s2 rs]|] eqn:E; [|discriminate]. injection H as <- <-. cbn. f_equal. eapply IH; exact E.
Qed.

(* -- the spec side: what the history says -- *)
Definition is_broker (c t p : Z) (r : req) : option Z :=
  match r with
  | SetBrokerOffset c' t' p' _ off => if (c' =? c) && (t' =? t) && (p' =? p) then Some off else None
  | _ => None
  end.

(* the offset carried by the last SetBrokerOffset for (cluster, topic, partition) in the history *)
Fixpoint last_broker (h : hist) (c t p : Z) : option Z :=
  match h with
  | [] => None
  | (_, r) :: rest =>
      match last_broker rest c t p with
      | Some b => Some b
      | None => is_broker c t p r
      end
  end.

Lemma last_broker_app h1 h2 c t p :
  last_broker (h1 ++ h2) c t p = match last_broker h2 c t p with Some b => Some b | None => last_broker h1 c t p end.
Proof.
  induction h1 as [|[now r] h1 IH]; cbn [app last_broker]; [destruct (last_broker h2 c t p); reflexivity|].
  rewrite IH. destruct (last_broker h2 c t p); reflexivity.
Qed.

Lemma last_broker_snoc h now r c t p :
  last_broker (h ++ [(now, r)]) c t p = match is_broker c t p r with Some b => Some b | None => last_broker h c t p end.
Proof. rewrite last_broker_app. cbn [last_broker]. destruct (is_broker c t p r); reflexivity. Qed.

(* requests as the cluster and consumer modules produce them: a broker offset names a partition below the
   partition count it announces; offsets are int64 *)
Definition wf_req (r : req) : Prop :=
  match r with
  | SetBrokerOffset _ _ p cnt off => 0 <= p < cnt /\ in_i64 off
  | SetConsumerOffset _ _ _ _ off _ _ => in_i64 off
  | _ => True
  end.
Definition wf_hist (h : hist) : Prop := Forall (fun x => wf_req (snd x)) h.

(* what the history knows about the lag field of a stored commit: absent, or the clamped distance to the broker
   offset that was the newest when a commit with this offset and log position arrived *)
Definition lag_ok (h : hist) (c g t p : Z) (e : coff) : Prop :=
  co_lag e = None \/
  exists h1 now ts rest b,
    h = h1 ++ (now, SetConsumerOffset c g t p (co_offset e) (co_order e) ts) :: rest /\
    last_broker h1 c t p = Some b /\ co_lag e = Some (Z.max 0 (b - co_offset e)) /\ 0 <= Z.max 0 (b - co_offset e) < two64.

Definition commit_ok (h : hist) (c g t : Z) (i : nat) (e : coff) : Prop :=
  in_i64 (co_offset e) /\ lag_ok h c g t (Z.of_nat i) e.

Lemma lag_ok_app h h2 c g t p e : lag_ok h c g t p e -> lag_ok (h ++ h2) c g t p e.
Proof.
  intros [H|(h1 & now & ts & rest & b & -> & H)]; [left; exact H|].
  right. exists h1, now, ts, (rest ++ h2), b. split; [|exact H]. rewrite <- app_assoc. reflexivity.
Qed.

Definition hinv (cf : config) (h : hist) (st : state) : Prop :=
  forall c cl, get st c = Some cl -> cinv (cf_intervals cf) (last_broker h c) (commit_ok h c) cl.

Lemma cinv_extend N h now r c cl :
  (forall t p, is_broker c t p r = None) ->
  cinv N (last_broker h c) (commit_ok h c) cl ->
  cinv N (last_broker (h ++ [(now, r)]) c) (commit_ok (h ++ [(now, r)]) c) cl.
Proof.
  intros Hnb. apply cinv_impl.
  - intros t p. rewrite last_broker_snoc, Hnb. reflexivity.
  - intros g t i e [H1 H2]. split; [exact H1|apply lag_ok_app; exact H2].
Qed.

Lemma hinv_init cf cls : hinv cf [] (init_state cls).
Proof.
  intros c cl H. unfold init_state in H.
  assert (cl = mkCluster [] []).
  { induction cls as [|c0 cls IH]; cbn in H; [discriminate|]. destruct (c0 =? c); [congruence|auto]. }
  subst cl. split; [intros t tl Ht; discriminate|intros g grp Hg; discriminate].
Qed.

Definition non_broker (r : req) : Prop := match r with SetBrokerOffset _ _ _ _ _ => False | _ => True end.

Lemma non_broker_is r c t p : non_broker r -> is_broker c t p r = None.
Proof. destruct r; cbn; tauto. Qed.

Lemma hinv_extend cf h st now r : non_broker r -> hinv cf h st -> hinv cf (h ++ [(now, r)]) st.
Proof. intros Hnb H c cl Hc. apply cinv_extend; [intros; apply non_broker_is; exact Hnb|apply H; exact Hc]. Qed.

Lemma hinv_set cf h st c cl' :
  hinv cf h st -> cinv (cf_intervals cf) (last_broker h c) (commit_ok h c) cl' -> hinv cf h (set st c cl').
Proof.
  intros H H0. unfold hinv.
  apply (inv_set (fun c cl => cinv (cf_intervals cf) (last_broker h c) (commit_ok h c) cl)); assumption.
Qed.

(* one step keeps the invariant and cannot crash *)
Lemma step_hinv cf h st now r :
  (1 <= cf_intervals cf)%nat -> hinv cf h st -> wf_req r ->
  exists st' rep, step cf now st r = Done st' rep /\ hinv cf (h ++ [(now, r)]) st'.
Proof.
  intros HN Hinv Hwf. set (h' := h ++ [(now, r)]).
  destruct r as [c t p cnt off|c g t p off order ts|c g t p owner client|c g|c t|c g t| |c|c|c g|c t|c t]; cbn [step].
  - (* SetBrokerOffset *)
    destruct Hwf as [Hp Hoff].
    assert (Hother : forall c' cl', c' <> c -> get st c' = Some cl' ->
                       cinv (cf_intervals cf) (last_broker h' c') (commit_ok h' c') cl').
    { intros c' cl' Hne Hc'. apply cinv_extend; [|apply Hinv; exact Hc'].
      intros t' p'. cbn. destruct (c =? c') eqn:E; [lia|reflexivity]. }
    destruct (get st c) as [cl|] eqn:Hc.
    + destruct (abo_inv cf st c cl t p cnt off (last_broker h c) (last_broker h' c) (commit_ok h c) HN Hc (Hinv c cl Hc) Hp Hoff)
        as (cl' & Hstep & _ & Hcl').
      * unfold h'. rewrite last_broker_snoc. cbn. rewrite !Z.eqb_refl. reflexivity.
      * intros t' p' Hd. unfold h'. rewrite last_broker_snoc. cbn. rewrite Z.eqb_refl. cbn.
        destruct (t =? t') eqn:E1; [|reflexivity]. destruct (p =? p') eqn:E2; [lia|reflexivity].
      * exists (set st c cl'), RNone. split; [exact Hstep|].
        intros c' cl0 Hc'. apply get_set_inv in Hc'. destruct Hc' as [[-> ->]|[Hne Hc']]; [|apply Hother; assumption].
        eapply cinv_impl; [reflexivity| |exact Hcl'].
        intros g0 t0 i0 e [H1 H2]. split; [exact H1|apply lag_ok_app; exact H2].
    + exists st, RNone. split; [unfold add_broker_offset; rewrite Hc; reflexivity|].
      intros c' cl' Hc'. apply Hother; [congruence|exact Hc'].
  - (* SetConsumerOffset *)
    assert (Hinv' : hinv cf h' st) by (apply hinv_extend; [exact I|exact Hinv]).
    destruct (get st c) as [cl|] eqn:Hc;
      [|exists st, RNone; split; [unfold add_consumer_offset; rewrite Hc; reflexivity|exact Hinv']].
    destruct (aco_inv cf now st c cl g t p off order ts (last_broker h' c) (commit_ok h' c) Hc (Hinv' c cl Hc))
      as [[_ Hstep]|(cl' & boff & w' & app & _ & Hstep & Hcl' & _)].
    + intros boff app e Hp0 Hlb Hboff (He1 & He2 & He3). cbn in He1, He2. split; [rewrite He1; exact Hwf|].
      destruct app; [|left; exact He3]. right.
      exists h, now, ts, [], boff. rewrite He1, He2. split; [rewrite Z2Nat.id by exact Hp0; reflexivity|].
      split.
      * unfold h' in Hlb. rewrite last_broker_snoc in Hlb. cbn in Hlb. rewrite Z2Nat.id by exact Hp0. exact Hlb.
      * destruct (commit_lag_spec boff off Hboff Hwf) as [E Hr]. rewrite He3, E. split; [reflexivity|]. rewrite <- E. exact Hr.
    + exists st, RNone. split; [exact Hstep|exact Hinv'].
    + exists (set st c cl'), RNone. split; [exact Hstep|]. apply hinv_set; [exact Hinv'|exact Hcl'].
  - (* SetConsumerOwner *)
    assert (Hinv' : hinv cf h' st) by (apply hinv_extend; [exact I|exact Hinv]).
    destruct (get st c) as [cl|] eqn:Hc;
      [|exists st, RNone; split; [unfold add_consumer_owner; rewrite Hc; reflexivity|exact Hinv']].
    destruct (aown_inv cf st c cl g t p owner client _ _ Hc (Hinv' c cl Hc)) as [[_ Hstep]|(cl' & _ & Hstep & Hcl' & _)].
    + exists st, RNone. split; [exact Hstep|exact Hinv'].
    + exists (set st c cl'), RNone. split; [exact Hstep|]. apply hinv_set; [exact Hinv'|exact Hcl'].
  - (* ClearConsumerOwners *)
    assert (Hinv' : hinv cf h' st) by (apply hinv_extend; [exact I|exact Hinv]).
    destruct (get st c) as [cl|] eqn:Hc;
      [|exists st, RNone; split; [unfold clear_consumer_owners; rewrite Hc; reflexivity|exact Hinv']].
    destruct (clear_inv cf st c cl g _ _ Hc (Hinv' c cl Hc)) as [Hstep|(cl' & Hstep & Hcl' & _)].
    + exists st, RNone. split; [exact Hstep|exact Hinv'].
    + exists (set st c cl'), RNone. split; [exact Hstep|]. apply hinv_set; [exact Hinv'|exact Hcl'].
  - (* DeleteTopic *)
    assert (Hinv' : hinv cf h' st) by (apply hinv_extend; [exact I|exact Hinv]).
    destruct (get st c) as [cl|] eqn:Hc;
      [|exists st, RNone; split; [unfold delete_topic; rewrite Hc; reflexivity|exact Hinv']].
    destruct (dtopic_inv cf st c cl t _ _ Hc (Hinv' c cl Hc)) as (cl' & Hstep & Hcl' & _).
    exists (set st c cl'), RNone. split; [exact Hstep|]. apply hinv_set; [exact Hinv'|exact Hcl'].
  - (* DeleteGroup *)
    assert (Hinv' : hinv cf h' st) by (apply hinv_extend; [exact I|exact Hinv]).
    destruct (get st c) as [cl|] eqn:Hc;
      [|exists st, RNone; split; [unfold delete_group; rewrite Hc; reflexivity|exact Hinv']].
    destruct (dgroup_inv cf st c cl g t _ _ Hc (Hinv' c cl Hc)) as [Hstep|(cl' & Hstep & Hcl' & _)].
    + exists st, RNone. split; [exact Hstep|exact Hinv'].
    + exists (set st c cl'), RNone. split; [exact Hstep|]. apply hinv_set; [exact Hinv'|exact Hcl'].
  - eexists _, _. split; [reflexivity|]. apply hinv_extend; [exact I|exact Hinv].
  - pose proof (hinv_extend cf h st now (FetchConsumers c) I Hinv) as Hinv'.
    destruct (get st c); eexists _, _; (split; [reflexivity|exact Hinv']).
  - pose proof (hinv_extend cf h st now (FetchTopics c) I Hinv) as Hinv'.
    destruct (get st c); eexists _, _; (split; [reflexivity|exact Hinv']).
  - (* FetchConsumer *)
    assert (Hinv' : hinv cf h' st) by (apply hinv_extend; [exact I|exact Hinv]).
    destruct (get st c) as [cl|] eqn:Hc;
      [|exists st, RNil; split; [unfold fetch_consumer; rewrite Hc; reflexivity|exact Hinv']].
    destruct (fetch_inv cf now st c cl g _ _ Hc (Hinv' c cl Hc)) as [Hstep|[(cl' & Hstep & Hcl' & _)|(grp & l & _ & Hstep & _)]].
    + exists st, RNil. split; [exact Hstep|exact Hinv'].
    + exists (set st c cl'), RNil. split; [exact Hstep|]. apply hinv_set; [exact Hinv'|exact Hcl'].
    + exists st, (RConsumer l). split; [exact Hstep|exact Hinv'].
  - pose proof (hinv_extend cf h st now (FetchTopic c t) I Hinv) as Hinv'. unfold fetch_topic.
    destruct (get st c) as [cl|]; [destruct (get (cl_broker cl) t)|]; eexists _, _; (split; [reflexivity|exact Hinv']).
  - pose proof (hinv_extend cf h st now (FetchConsumersForTopic c t) I Hinv) as Hinv'. unfold fetch_consumers_for_topic.
    destruct (get st c) as [cl|]; eexists _, _; (split; [reflexivity|exact Hinv']).
Qed.

Lemma wf_hist_snoc h x : wf_hist (h ++ [x]) <-> wf_hist h /\ wf_req (snd x).
Proof.
  unfold wf_hist. rewrite Forall_app. split; [intros [H1 H2]; inversion H2; auto|intros [H1 H2]; auto].
Qed.

(* In every sequential history of well-formed requests storage never crashes, and the invariant holds. *)
Theorem run_hinv cf cls h :
  (1 <= cf_intervals cf)%nat -> wf_hist h ->
  exists st reps, run cf (init_state cls) h = Some (st, reps) /\ hinv cf h st.
Proof.
  intros HN. induction h as [|[now r] h IH] using rev_ind; intros Hwf.
  - exists (init_state cls), []. split; [reflexivity|apply hinv_init].
  - apply wf_hist_snoc in Hwf. destruct Hwf as [Hwf Hr]. destruct (IH Hwf) as (st & reps & Hrun & Hinv).
    destruct (step_hinv cf h st now r HN Hinv Hr) as (st' & rep & Hstep & Hinv').
    exists st', (reps ++ [rep]). split; [|exact Hinv']. rewrite run_snoc, Hrun, Hstep. reflexivity.
Qed.

(* ================================================================================================ *)
(* 4. the shared state invariant, and C01                                                           *)
(* ================================================================================================ *)

(* State-only part of the invariant (shared with C02/C08/C09): per cluster,
   - every broker ring has [intervals] slots and holds int64 values;
   - a group's topic map has no duplicate key; every consumer topic is also a broker topic, with at most as many
     partitions; wherever a consumer partition has an offsets ring, the broker ring of the same index exists and
     its newest slot is filled; stored commit offsets are int64.
   This is what makes [topicMap[p]] and [BrokerOffsets[len-1]] in fetchConsumer safe. *)
Definition storage_inv (cf : config) (st : state) : Prop :=
  forall c cl, get st c = Some cl ->
    (forall t tl, get (cl_broker cl) t = Some tl -> Forall (bring_ok (cf_intervals cf)) tl) /\
    (forall g grp, get (cl_consumer cl) g = Some grp ->
                   group_ok (fun _ _ e => in_i64 (co_offset e)) (cl_broker cl) grp).

Lemma hinv_storage_inv cf h st : hinv cf h st -> storage_inv cf st.
Proof.
  intros H c cl Hc. destruct (H c cl Hc) as [Hb Hg]. split.
  - intros t tl Ht. apply (Hb t tl Ht).
  - intros g grp Hgr. eapply group_ok_impl; [|apply Hg; exact Hgr]. intros t i e [He _]. exact He.
Qed.

Theorem storage_never_crashes cf cls h :
  (1 <= cf_intervals cf)%nat -> wf_hist h ->
  exists st reps, run cf (init_state cls) h = Some (st, reps) /\ storage_inv cf st.
Proof.
  intros HN Hwf. destruct (run_hinv cf cls h HN Hwf) as (st & reps & Hrun & Hinv).
  exists st, reps. split; [exact Hrun|eapply hinv_storage_inv; exact Hinv].
Qed.

Lemma run_reaches_hinv cf cls h st reps :
  (1 <= cf_intervals cf)%nat -> wf_hist h -> run cf (init_state cls) h = Some (st, reps) -> hinv cf h st.
Proof.
  intros HN Hwf Hrun. destruct (run_hinv cf cls h HN Hwf) as (st0 & reps0 & Hrun0 & Hinv).
  rewrite Hrun in Hrun0. injection Hrun0 as -> _. exact Hinv.
Qed.

(* a FetchConsumer reply, read against the history *)
Lemma fetch_reply_hist cf cls h st reps now c g st' l t cps i cp :
  (1 <= cf_intervals cf)%nat -> wf_hist h ->
  run cf (init_state cls) h = Some (st, reps) ->
  fetch_consumer cf now st c g = Done st' (RConsumer l) ->
  In (t, cps) l -> nth_error cps i = Some cp ->
  exists cl pr, get st c = Some cl /\ nth_error (cons_topic cl g t) i = Some pr /\
    match pr_ring pr with
    | None => cp_offsets cp = [] /\ cp_lag cp = 0
    | Some w => exists b, last_broker h c t (Z.of_nat i) = Some b /\ in_i64 b /\ cp_offsets cp = rev w /\
                          Forall (optP (commit_ok h c g t i)) w /\ (forall d, last (cp_brokers cp) d = b) /\
                          cp_lag cp = match hd None w with Some lo => current_lag b (co_offset lo) | None => 0 end
    end.
Proof.
  intros HN Hwf Hrun Hf Hin Hi. pose proof (run_reaches_hinv _ _ _ _ _ HN Hwf Hrun) as Hinv.
  destruct (get st c) as [cl|] eqn:Hc; [|unfold fetch_consumer in Hf; rewrite Hc in Hf; discriminate].
  destruct (fetch_inv cf now st c cl g _ _ Hc (Hinv c cl Hc)) as [Hs|[(cl' & Hs & _)|(grp & l0 & Hgr & Hs & Hl0)]];
    rewrite Hs in Hf; try discriminate.
  injection Hf as _ <-.
  destruct (fetch_reply_spec _ _ _ cl g grp l0 t cps i cp (Hinv c cl Hc) Hgr Hl0 Hin Hi) as (pr & Hpr & _ & _ & Hm).
  exists cl, pr. auto.
Qed.

Lemma hd_In {A} (w : list (option A)) x : hd None w = Some x -> In (Some x) w.
Proof. destruct w as [|y w]; cbn; [discriminate|]. intros ->. left; reflexivity. Qed.

(* C01, first sentence.  [last (cp_offsets cp) None] is the newest slot of the window in the reply;
   [last_broker h c t p] is a function of the history alone. *)
Theorem current_lag_exact cf cls h st reps now c g st' l t cps i cp :
  (1 <= cf_intervals cf)%nat -> wf_hist h ->
  run cf (init_state cls) h = Some (st, reps) ->
  fetch_consumer cf now st c g = Done st' (RConsumer l) ->
  In (t, cps) l -> nth_error cps i = Some cp ->
  match last (cp_offsets cp) None with
  | Some k => exists b, last_broker h c t (Z.of_nat i) = Some b /\ (forall d, last (cp_brokers cp) d = b) /\
                        cp_lag cp = Z.max 0 (b - co_offset k) /\ 0 <= cp_lag cp < two64
  | None => cp_lag cp = 0
  end.
Proof.
  intros HN Hwf Hrun Hf Hin Hi.
  destruct (fetch_reply_hist _ _ _ _ _ _ _ _ _ _ _ _ _ _ HN Hwf Hrun Hf Hin Hi) as (cl & pr & _ & _ & Hm).
  destruct (pr_ring pr) as [w|].
  - destruct Hm as (b & Hlb & Hb & -> & HFw & Hbr & Hlag). rewrite last_rev_hd.
    destruct (hd None w) as [k|] eqn:Ehd; [|exact Hlag].
    exists b. split; [exact Hlb|]. split; [exact Hbr|].
    rewrite Forall_forall in HFw. destruct (HFw (Some k) (hd_In _ _ Ehd)) as [Hk _].
    destruct (current_lag_spec b (co_offset k) Hb Hk) as [E Hr]. rewrite Hlag, <- E. split; [reflexivity|exact Hr].
  - destruct Hm as [-> ->]. reflexivity.
Qed.

(* C01, second sentence, global form: whatever lag value a reported commit carries is the clamped distance to the
   broker offset that was the newest when a commit with that offset and log position arrived. *)
Theorem stored_lag_exact cf cls h st reps now c g st' l t cps i cp e :
  (1 <= cf_intervals cf)%nat -> wf_hist h ->
  run cf (init_state cls) h = Some (st, reps) ->
  fetch_consumer cf now st c g = Done st' (RConsumer l) ->
  In (t, cps) l -> nth_error cps i = Some cp -> In (Some e) (cp_offsets cp) ->
  lag_ok h c g t (Z.of_nat i) e.
Proof.
  intros HN Hwf Hrun Hf Hin Hi He.
  destruct (fetch_reply_hist _ _ _ _ _ _ _ _ _ _ _ _ _ _ HN Hwf Hrun Hf Hin Hi) as (cl & pr & _ & _ & Hm).
  destruct (pr_ring pr) as [w|].
  - destruct Hm as (b & _ & _ & Ho & HFw & _). rewrite Ho in He. apply in_rev in He.
    rewrite Forall_forall in HFw. apply (HFw (Some e) He).
  - destruct Hm as [Ho _]. rewrite Ho in He. contradiction.
Qed.

(* the same two statements for a fetch made at any point of a longer history *)
Lemma run_fetch_at cf st0 h1 now c g h2 st reps l :
  run cf st0 (h1 ++ (now, FetchConsumer c g) :: h2) = Some (st, reps) ->
  nth_error reps (length h1) = Some (RConsumer l) ->
  exists st1 r1 st1', run cf st0 h1 = Some (st1, r1) /\ fetch_consumer cf now st1 c g = Done st1' (RConsumer l).
Proof.
  intros Hrun Hn. rewrite run_app in Hrun. destruct (run cf st0 h1) as [[st1 r1]|] eqn:E1; [|discriminate].
  cbn [run step] in Hrun. destruct (fetch_consumer cf now st1 c g) as [st1' rep|] eqn:Ef; [|discriminate].
  destruct (run cf st1' h2) as [[st2 r2]|]; [|discriminate]. injection Hrun as <- <-.
  rewrite nth_error_app2 in Hn by (rewrite (run_length _ _ _ _ _ E1); lia).
  rewrite (run_length _ _ _ _ _ E1), Nat.sub_diag in Hn. cbn in Hn. injection Hn as ->.
  exists st1, r1, st1'. auto.
Qed.

Theorem current_lag_exact_anywhere cf cls h1 now c g h2 st reps l t cps i cp :
  (1 <= cf_intervals cf)%nat -> wf_hist (h1 ++ (now, FetchConsumer c g) :: h2) ->
  run cf (init_state cls) (h1 ++ (now, FetchConsumer c g) :: h2) = Some (st, reps) ->
  nth_error reps (length h1) = Some (RConsumer l) ->
  In (t, cps) l -> nth_error cps i = Some cp ->
  match last (cp_offsets cp) None with
  | Some k => exists b, last_broker h1 c t (Z.of_nat i) = Some b /\ (forall d, last (cp_brokers cp) d = b) /\
                        cp_lag cp = Z.max 0 (b - co_offset k) /\ 0 <= cp_lag cp < two64
  | None => cp_lag cp = 0
  end.
Proof.
  intros HN Hwf Hrun Hn Hin Hi. destruct (run_fetch_at _ _ _ _ _ _ _ _ _ _ Hrun Hn) as (st1 & r1 & st1' & H1 & Hf).
  unfold wf_hist in Hwf. apply Forall_app in Hwf. destruct Hwf as [Hwf1 _].
  eapply current_lag_exact; eauto.
Qed.

Theorem stored_lag_exact_anywhere cf cls h1 now c g h2 st reps l t cps i cp e :
  (1 <= cf_intervals cf)%nat -> wf_hist (h1 ++ (now, FetchConsumer c g) :: h2) ->
  run cf (init_state cls) (h1 ++ (now, FetchConsumer c g) :: h2) = Some (st, reps) ->
  nth_error reps (length h1) = Some (RConsumer l) ->
  In (t, cps) l -> nth_error cps i = Some cp -> In (Some e) (cp_offsets cp) ->
  lag_ok h1 c g t (Z.of_nat i) e.
Proof.
  intros HN Hwf Hrun Hn Hin Hi He. destruct (run_fetch_at _ _ _ _ _ _ _ _ _ _ Hrun Hn) as (st1 & r1 & st1' & H1 & Hf).
  unfold wf_hist in Hwf. apply Forall_app in Hwf. destruct Hwf as [Hwf1 _].
  eapply stored_lag_exact; eauto.
Qed.

(* ---- C01, second sentence, step-wise: what one arriving commit does to the window, and that nothing else ever
        rewrites a stored commit ---- *)

(* the offsets ring of (cluster, group, topic, partition) as the next commit will find it *)
Definition ring_of (cf : config) (st : state) (c g t p : Z) : ring :=
  match get st c with
  | Some cl => ring_at (cf_intervals cf) (cons_topic cl g t) (Z.to_nat p)
  | None => new_ring (cf_intervals cf)
  end.

Lemma ring_of_set_same cf st c cl' g t p :
  ring_of cf (set st c cl') c g t p = ring_at (cf_intervals cf) (cons_topic cl' g t) (Z.to_nat p).
Proof. unfold ring_of. rewrite get_set_eq. reflexivity. Qed.

Lemma ring_of_set_other cf st c0 cl' c g t p : c0 <> c -> ring_of cf (set st c0 cl') c g t p = ring_of cf st c g t p.
Proof. intros H. unfold ring_of. rewrite get_set_neq by exact H. reflexivity. Qed.

Theorem commit_lag_step cf cls h st reps now c g t p off order ts st' rep :
  (1 <= cf_intervals cf)%nat -> wf_hist h -> in_i64 off ->
  run cf (init_state cls) h = Some (st, reps) ->
  step cf now st (SetConsumerOffset c g t p off order ts) = Done st' rep ->
  let w := ring_of cf st c g t p in
  let w' := ring_of cf st' c g t p in
  (* dropped (too old, rejected group, unknown cluster / broker partition, duplicate, older than a full window) *)
  w' = w \/
  (* arrived as the newest: lag against the broker offset known at this arrival; one old slot gives way *)
  (exists b, last_broker h c t p = Some b /\
     (hd None w = None \/ exists nw, hd None w = Some nw /\ co_order nw < order) /\
     exists e rest a' x b', w' = Some e :: rest /\ co_offset e = off /\ co_order e = order /\
        co_lag e = Some (Z.max 0 (b - off)) /\ 0 <= Z.max 0 (b - off) < two64 /\
        w = a' ++ x :: b' /\ rest = a' ++ b') \/
  (* arrived out of order: stored without a lag value; one old slot gives way *)
  ((exists nw, hd None w = Some nw /\ order <= co_order nw) /\
   exists e, co_offset e = off /\ co_order e = order /\ co_lag e = None /\ overwrite w w' e).
Proof.
  intros HN Hwf Hoff Hrun Hstep w w'. pose proof (run_reaches_hinv _ _ _ _ _ HN Hwf Hrun) as Hinv.
  cbn [step] in Hstep. subst w w'.
  destruct (get st c) as [cl|] eqn:Hc;
    [|unfold add_consumer_offset in Hstep; rewrite Hc in Hstep; injection Hstep as <- _; left; reflexivity].
  destruct (aco_inv cf now st c cl g t p off order ts (last_broker h c) (fun _ _ _ _ => True) Hc) as
    [[_ Hs]|(cl' & boff & w1 & app & _ & Hs & _ & _ & Hlb & Hboff & Hp0 & Hrs & Hw1 & _)].
  - eapply cinv_impl; [reflexivity| |apply Hinv; exact Hc]. intros; exact I.
  - intros; exact I.
  - rewrite Hs in Hstep. injection Hstep as <- _. left; reflexivity.
  - rewrite Hs in Hstep. injection Hstep as <- _. rewrite ring_of_set_same, Hw1.
    unfold ring_of at 1 2 3 4 5 6. rewrite Hc.
    apply ring_step_cases in Hrs. destruct app.
    + right. left. destruct Hrs as (Hnew & e & rest & a' & x & b' & E1 & (He1 & He2 & He3) & E2 & E3).
      exists boff. split; [exact Hlb|]. split; [exact Hnew|]. exists e, rest, a', x, b'.
      destruct (commit_lag_spec boff off Hboff Hoff) as [E Hr]. cbn in He1, He2.
      repeat split; auto; try lia. rewrite He3, E. reflexivity.
    + destruct Hrs as [->|(Hold & e & (He1 & He2 & He3) & How)]; [left; reflexivity|].
      right. right. split; [exact Hold|]. exists e. auto.
Qed.

(* every other request leaves the ring of (c,g,t,p) untouched, or removes it altogether *)
Theorem commit_frame cf cls h st reps now r c g t p st' rep :
  (1 <= cf_intervals cf)%nat -> wf_hist h -> wf_req r -> 0 <= p ->
  run cf (init_state cls) h = Some (st, reps) ->
  step cf now st r = Done st' rep ->
  (forall off order ts, r <> SetConsumerOffset c g t p off order ts) ->
  ring_of cf st' c g t p = ring_of cf st c g t p \/ ring_of cf st' c g t p = new_ring (cf_intervals cf).
Proof.
  intros HN Hwf Hr Hp0 Hrun Hstep Hnot. pose proof (run_reaches_hinv _ _ _ _ _ HN Hwf Hrun) as Hinv.
  set (N := cf_intervals cf).
  (* a step on cluster c0 that replaces it by cl' *)
  assert (Hset : forall c0 cl0 cl', get st c0 = Some cl0 -> st' = set st c0 cl' ->
            (c0 = c -> ring_at N (cons_topic cl' g t) (Z.to_nat p) = ring_at N (cons_topic cl0 g t) (Z.to_nat p) \/
                       ring_at N (cons_topic cl' g t) (Z.to_nat p) = new_ring N) ->
            ring_of cf st' c g t p = ring_of cf st c g t p \/ ring_of cf st' c g t p = new_ring N).
  { intros c0 cl0 cl' Hc0 -> Hk. destruct (Z.eq_dec c0 c) as [->|Hne].
    - rewrite ring_of_set_same. unfold ring_of. rewrite Hc0. apply Hk. reflexivity.
    - left. apply ring_of_set_other. exact Hne. }
  destruct r as [c0 t0 p0 cnt off|c0 g0 t0 p0 off order ts|c0 g0 t0 p0 owner client|c0 g0|c0 t0|c0 g0 t0| |c0|c0|c0 g0|c0 t0|c0 t0];
    cbn [step] in Hstep.
  - destruct Hr as [Hp Hoff]. destruct (get st c0) as [cl0|] eqn:Hc0;
      [|unfold add_broker_offset in Hstep; rewrite Hc0 in Hstep; injection Hstep as <- _; left; reflexivity].
    destruct (abo_inv cf st c0 cl0 t0 p0 cnt off (last_broker h c0)
                (fun t' p' => if (t' =? t0) && (p' =? p0) then Some off else last_broker h c0 t' p')
                (commit_ok h c0) HN Hc0 (Hinv c0 cl0 Hc0) Hp Hoff) as (cl' & Hs & Hcons & _).
    + rewrite !Z.eqb_refl. reflexivity.
    + intros t' p' Hd. destruct (t' =? t0) eqn:E1; [|reflexivity]. destruct (p' =? p0) eqn:E2; [lia|reflexivity].
    + rewrite Hs in Hstep. injection Hstep as <- _. eapply Hset; [exact Hc0|reflexivity|].
      intros _. left. unfold cons_topic. rewrite Hcons. reflexivity.
  - destruct (get st c0) as [cl0|] eqn:Hc0;
      [|unfold add_consumer_offset in Hstep; rewrite Hc0 in Hstep; injection Hstep as <- _; left; reflexivity].
    destruct (aco_inv cf now st c0 cl0 g0 t0 p0 off order ts (last_broker h c0) (fun _ _ _ _ => True) Hc0) as
      [[_ Hs]|(cl' & boff & w1 & app & _ & Hs & _ & _ & _ & _ & Hp00 & _ & _ & Hfr & _)].
    + eapply cinv_impl; [reflexivity| |apply Hinv; exact Hc0]. intros; exact I.
    + intros; exact I.
    + rewrite Hs in Hstep. injection Hstep as <- _. left; reflexivity.
    + rewrite Hs in Hstep. injection Hstep as <- _. eapply Hset; [exact Hc0|reflexivity|].
      intros ->. left. apply Hfr.
      destruct (Z.eq_dec g g0) as [->|]; [|left; assumption]. destruct (Z.eq_dec t t0) as [->|]; [|right; left; assumption].
      right. right. intros E. apply (Hnot off order ts). f_equal. lia.
  - destruct (get st c0) as [cl0|] eqn:Hc0;
      [|unfold add_consumer_owner in Hstep; rewrite Hc0 in Hstep; injection Hstep as <- _; left; reflexivity].
    destruct (aown_inv cf st c0 cl0 g0 t0 p0 owner client _ _ Hc0 (Hinv c0 cl0 Hc0)) as [[_ Hs]|(cl' & _ & Hs & _ & _ & Hfr & _)];
      rewrite Hs in Hstep; injection Hstep as <- _; [left; reflexivity|].
    eapply Hset; [exact Hc0|reflexivity|]. intros _. left. apply Hfr.
  - destruct (get st c0) as [cl0|] eqn:Hc0;
      [|unfold clear_consumer_owners in Hstep; rewrite Hc0 in Hstep; injection Hstep as <- _; left; reflexivity].
    destruct (clear_inv cf st c0 cl0 g0 _ _ Hc0 (Hinv c0 cl0 Hc0)) as [Hs|(cl' & Hs & _ & _ & Hfr & _)];
      rewrite Hs in Hstep; injection Hstep as <- _; [left; reflexivity|].
    eapply Hset; [exact Hc0|reflexivity|]. intros _. left. apply Hfr.
  - destruct (get st c0) as [cl0|] eqn:Hc0;
      [|unfold delete_topic in Hstep; rewrite Hc0 in Hstep; injection Hstep as <- _; left; reflexivity].
    destruct (dtopic_inv cf st c0 cl0 t0 _ _ Hc0 (Hinv c0 cl0 Hc0)) as (cl' & Hs & _ & Hfr).
    rewrite Hs in Hstep; injection Hstep as <- _. eapply Hset; [exact Hc0|reflexivity|]. intros _. apply Hfr.
  - destruct (get st c0) as [cl0|] eqn:Hc0;
      [|unfold delete_group in Hstep; rewrite Hc0 in Hstep; injection Hstep as <- _; left; reflexivity].
    destruct (dgroup_inv cf st c0 cl0 g0 t0 _ _ Hc0 (Hinv c0 cl0 Hc0)) as [Hs|(cl' & Hs & _ & _ & Hfr)];
      rewrite Hs in Hstep; injection Hstep as <- _; [left; reflexivity|].
    eapply Hset; [exact Hc0|reflexivity|]. intros _. apply Hfr.
  - injection Hstep as <- _. left; reflexivity.
  - destruct (get st c0); injection Hstep as <- _; left; reflexivity.
  - destruct (get st c0); injection Hstep as <- _; left; reflexivity.
  - destruct (get st c0) as [cl0|] eqn:Hc0;
      [|unfold fetch_consumer in Hstep; rewrite Hc0 in Hstep; injection Hstep as <- _; left; reflexivity].
    destruct (fetch_inv cf now st c0 cl0 g0 _ _ Hc0 (Hinv c0 cl0 Hc0)) as [Hs|[(cl' & Hs & _ & _ & Hfr)|(grp & l & _ & Hs & _)]];
      rewrite Hs in Hstep; injection Hstep as <- _; [left; reflexivity| |left; reflexivity].
    eapply Hset; [exact Hc0|reflexivity|]. intros _. apply Hfr.
  - unfold fetch_topic in Hstep. destruct (get st c0) as [cl0|]; [destruct (get (cl_broker cl0) t0)|];
      injection Hstep as <- _; left; reflexivity.
  - unfold fetch_consumers_for_topic in Hstep. destruct (get st c0); injection Hstep as <- _; left; reflexivity.
Qed.

(* the cast after the guard, in the strict form of the two call sites (inmemory.go:437 and :877) *)
Lemma lag_cast_exact_strict b o :
  in_i64 b -> in_i64 o -> o < b -> u64 (sub64 b o) = b - o /\ 0 < b - o < two64.
Proof. intros Hb Ho H. destruct (lag_cast_exact b o Hb Ho ltac:(lia)) as [E Hr]. split; [exact E|lia]. Qed.

(* ---- non-vacuity: concrete histories that meet the hypotheses and exercise each clause ---- *)
Definition ex_cfg : config := mkConfig 3 1000 0 (fun _ => true).

(* consumer ahead of the broker: broker 50, commit at 60 *)
Definition ex_ahead : hist :=
  [(100, SetBrokerOffset 1 1 0 1 50); (100, SetConsumerOffset 1 1 1 0 60 1 100000)].

(* the broker offset changes between two commits: 100, commit 90, 200, commit 150 *)
Definition ex_moving : hist :=
  [(100, SetBrokerOffset 1 1 0 1 100); (100, SetConsumerOffset 1 1 1 0 90 1 100000);
   (101, SetBrokerOffset 1 1 0 1 200); (101, SetConsumerOffset 1 1 1 0 150 2 101000)].

(* an out-of-order commit: log position 3 arrives after log position 5 *)
Definition ex_ooo : hist :=
  [(100, SetBrokerOffset 1 1 0 1 100); (100, SetConsumerOffset 1 1 1 0 50 5 100000);
   (100, SetConsumerOffset 1 1 1 0 40 3 99000)].

(* extreme values: broker 2^63-1, consumer -2^63: the difference does not fit int64 but the lag is exact *)
Definition ex_extreme : hist :=
  [(100, SetBrokerOffset 1 1 0 1 9223372036854775807); (100, SetConsumerOffset 1 1 1 0 (-9223372036854775808) 1 100000)].

Local Ltac wf_tac := unfold wf_hist; repeat (apply Forall_cons || apply Forall_nil); cbn [snd wf_req]; unfold in_i64, two63; lia.

Lemma ex_ahead_ok :
  wf_hist ex_ahead /\ last_broker ex_ahead 1 1 0 = Some 50 /\
  exists st reps, run ex_cfg (init_state [1]) ex_ahead = Some (st, reps) /\
    fetch_consumer ex_cfg 100 st 1 1 =
      Done st (RConsumer [(1, [mkCpart [None; None; Some (mkCoff 60 1 100000 (Some 0))] [50] 0 0 0])]).
Proof. split; [wf_tac|]. split; [reflexivity|]. eexists _, _. split; [vm_compute; reflexivity|]. vm_compute. reflexivity. Qed.

Lemma ex_moving_ok :
  wf_hist ex_moving /\ last_broker ex_moving 1 1 0 = Some 200 /\
  last_broker (firstn 1 ex_moving) 1 1 0 = Some 100 /\
  exists st reps, run ex_cfg (init_state [1]) ex_moving = Some (st, reps) /\
    fetch_consumer ex_cfg 101 st 1 1 =
      Done st (RConsumer [(1, [mkCpart [None; Some (mkCoff 90 1 100000 (Some 10)); Some (mkCoff 150 2 101000 (Some 50))]
                                       [100; 200] 0 0 50])]).
Proof. split; [wf_tac|]. split; [reflexivity|]. split; [reflexivity|]. eexists _, _. split; [vm_compute; reflexivity|]. vm_compute. reflexivity. Qed.

Lemma ex_ooo_ok :
  wf_hist ex_ooo /\
  exists st reps, run ex_cfg (init_state [1]) ex_ooo = Some (st, reps) /\
    fetch_consumer ex_cfg 100 st 1 1 =
      Done st (RConsumer [(1, [mkCpart [None; Some (mkCoff 40 3 99000 None); Some (mkCoff 50 5 100000 (Some 50))]
                                       [100] 0 0 50])]).
Proof. split; [wf_tac|]. eexists _, _. split; [vm_compute; reflexivity|]. vm_compute. reflexivity. Qed.

Lemma ex_extreme_ok :
  wf_hist ex_extreme /\
  exists st reps, run ex_cfg (init_state [1]) ex_extreme = Some (st, reps) /\
    fetch_consumer ex_cfg 100 st 1 1 =
      Done st (RConsumer [(1, [mkCpart [None; None; Some (mkCoff (-9223372036854775808) 1 100000 (Some 18446744073709551615))]
                                       [9223372036854775807] 0 0 18446744073709551615])]).
Proof. split; [wf_tac|]. eexists _, _. split; [vm_compute; reflexivity|]. vm_compute. reflexivity. Qed.

(* ================================================================================================ *)
(* 5. exact provenance of every ring (used by the C02 lift in StorageWindows.v)                     *)
(* ================================================================================================ *)

(* exact effect of the removing requests on every ring; no invariant needed *)
Lemma delete_topic_rings N st c cl t :
  get st c = Some cl ->
  exists cl', delete_topic st c t = Done (set st c cl') RNone /\
    forall g t' j, ring_at N (cons_topic cl' g t') j =
                   if t' =? t then new_ring N else ring_at N (cons_topic cl g t') j.
Proof.
  intros Hc. unfold delete_topic. rewrite Hc. eexists. split; [reflexivity|].
  intros g t' j. unfold cons_topic at 1. cbn [cl_consumer]. rewrite get_map_vals.
  destruct (get (cl_consumer cl) g) as [grp|] eqn:Egr; cbn [option_map g_topics].
  - destruct (t' =? t) eqn:E.
    + apply Z.eqb_eq in E. subst t'. rewrite get_remove_eq. apply ring_at_nil.
    + apply Z.eqb_neq in E. rewrite get_remove_neq by congruence. unfold cons_topic. rewrite Egr. reflexivity.
  - unfold cons_topic. rewrite Egr. rewrite ring_at_nil. destruct (t' =? t); reflexivity.
Qed.

Lemma delete_group_rings N st c cl g t :
  get st c = Some cl ->
  (delete_group st c g t = Done st RNone /\ get (cl_consumer cl) g = None) \/
  exists cl', delete_group st c g t = Done (set st c cl') RNone /\
    forall g' t' j, ring_at N (cons_topic cl' g' t') j =
                    if (g' =? g) && ((t =? 0) || (t' =? t)) then new_ring N else ring_at N (cons_topic cl g' t') j.
Proof.
  intros Hc. unfold delete_group. rewrite Hc.
  destruct (get (cl_consumer cl) g) as [grp|] eqn:Egr; [right|left; auto].
  assert (Hrm : forall g' t' j (b : bool),
            (g' = g -> b = false -> ring_at N (cons_topic cl g t') j = new_ring N) ->
            ring_at N (cons_topic (mkCluster (cl_broker cl) (remove (cl_consumer cl) g)) g' t') j =
            if (g' =? g) && b then new_ring N else ring_at N (cons_topic cl g' t') j).
  { intros g' t' j b Hb. unfold cons_topic at 1. cbn [cl_consumer]. destruct (g' =? g) eqn:E.
    - apply Z.eqb_eq in E. subst g'. rewrite get_remove_eq, ring_at_nil. destruct b; cbn; [reflexivity|].
      symmetry. apply Hb; reflexivity.
    - apply Z.eqb_neq in E. rewrite get_remove_neq by congruence. reflexivity. }
  destruct (t =? 0) eqn:Et0.
  - eexists. split; [reflexivity|]. intros g' t' j. cbn [orb]. apply Hrm. intros _ H; discriminate.
  - assert (Hset : exists cl', Done (set st c (mkCluster (cl_broker cl) (set (cl_consumer cl) g
                                   (mkCgroup (remove (g_topics grp) t) (g_last grp))))) RNone = Done (set st c cl') RNone /\
             forall g' t' j, ring_at N (cons_topic cl' g' t') j =
                    if (g' =? g) && (false || (t' =? t)) then new_ring N else ring_at N (cons_topic cl g' t') j).
    2:{ destruct (remove (g_topics grp) t) as [|kv rest] eqn:Erm; [|exact Hset].
        destruct (get (g_topics grp) t); [|exact Hset].
        eexists. split; [reflexivity|]. intros g' t' j. cbn [orb]. apply Hrm. intros _ Hne.
        apply Z.eqb_neq in Hne. unfold cons_topic. rewrite Egr.
        assert (Hn : get (g_topics grp) t' = None).
        { rewrite <- (get_remove_neq (g_topics grp) t t') by congruence. rewrite Erm. reflexivity. }
        rewrite Hn. apply ring_at_nil. }
    + eexists. split; [reflexivity|]. intros g' t' j. cbn [orb].
      unfold cons_topic at 1. cbn [cl_consumer]. destruct (g' =? g) eqn:E; cbn [andb].
      * apply Z.eqb_eq in E. subst g'. rewrite get_set_eq. cbn [g_topics]. destruct (t' =? t) eqn:E2.
        -- apply Z.eqb_eq in E2. subst t'. rewrite get_remove_eq. apply ring_at_nil.
        -- apply Z.eqb_neq in E2. rewrite get_remove_neq by congruence. unfold cons_topic. rewrite Egr. reflexivity.
      * apply Z.eqb_neq in E. rewrite get_set_neq by congruence. reflexivity.
Qed.

Definition group_expired (cf : config) (now : Z) (st : state) (c g : Z) : bool :=
  match get st c with
  | Some cl => match get (cl_consumer cl) g with Some grp => expired cf now (g_last grp) | None => false end
  | None => false
  end.

Lemma fetch_consumer_rings N cf now st c cl g :
  get st c = Some cl ->
  if group_expired cf now st c g
  then exists cl', fetch_consumer cf now st c g = Done (set st c cl') RNil /\
         forall g' t' j, ring_at N (cons_topic cl' g' t') j =
                         if g' =? g then new_ring N else ring_at N (cons_topic cl g' t') j
  else forall st' rep, fetch_consumer cf now st c g = Done st' rep -> st' = st.
Proof.
  intros Hc. unfold group_expired, fetch_consumer. rewrite Hc.
  destruct (get (cl_consumer cl) g) as [grp|] eqn:Egr; [|intros st' rep H; congruence].
  destruct (expired cf now (g_last grp)).
  - eexists. split; [reflexivity|]. intros g' t' j. unfold cons_topic at 1. cbn [cl_consumer].
    destruct (g' =? g) eqn:E.
    + apply Z.eqb_eq in E. subst g'. rewrite get_remove_eq. apply ring_at_nil.
    + apply Z.eqb_neq in E. rewrite get_remove_neq by congruence. reflexivity.
  - intros st' rep H. destruct (fetch_topics_lags (cl_broker cl) _); congruence.
Qed.

(* the requests that remove the rings of a (cluster, group, topic) *)
Definition resets (cf : config) (now : Z) (st : state) (c g t : Z) (r : req) : bool :=
  match r with
  | DeleteTopic c' t' => (c' =? c) && (t' =? t)
  | DeleteGroup c' g' t' => (c' =? c) && (g' =? g) && ((t' =? 0) || (t =? t'))
  | FetchConsumer c' g' => (c' =? c) && (g' =? g) && group_expired cf now st c g
  | _ => false
  end.

(* every request other than a commit for (c,g,t,p) leaves that ring exactly as it was, or (the three removing
   requests) puts the fresh all-empty ring in its place *)
Theorem ring_frame_exact cf cls h st reps now r c g t p st' rep :
  (1 <= cf_intervals cf)%nat -> wf_hist h -> wf_req r -> 0 <= p ->
  run cf (init_state cls) h = Some (st, reps) ->
  step cf now st r = Done st' rep ->
  (forall off order ts, r <> SetConsumerOffset c g t p off order ts) ->
  ring_of cf st' c g t p = if resets cf now st c g t r then new_ring (cf_intervals cf) else ring_of cf st c g t p.
Proof.
  intros HN Hwf Hr Hp0 Hrun Hstep Hnot. pose proof (run_reaches_hinv _ _ _ _ _ HN Hwf Hrun) as Hinv.
  set (N := cf_intervals cf).
  assert (Hset : forall c0 cl0 cl' (b : bool), get st c0 = Some cl0 -> st' = set st c0 cl' ->
            (c0 = c -> ring_at N (cons_topic cl' g t) (Z.to_nat p) =
                       if b then new_ring N else ring_at N (cons_topic cl0 g t) (Z.to_nat p)) ->
            ring_of cf st' c g t p = if (c0 =? c) && b then new_ring N else ring_of cf st c g t p).
  { intros c0 cl0 cl' b Hc0 -> Hk. destruct (c0 =? c) eqn:E.
    - apply Z.eqb_eq in E. subst c0. rewrite ring_of_set_same. unfold ring_of. rewrite Hc0. cbn [andb]. apply Hk. reflexivity.
    - apply Z.eqb_neq in E. cbn [andb]. apply ring_of_set_other. exact E. }
  assert (Hsame : forall c0 cl0 cl', get st c0 = Some cl0 -> st' = set st c0 cl' ->
            (c0 = c -> ring_at N (cons_topic cl' g t) (Z.to_nat p) = ring_at N (cons_topic cl0 g t) (Z.to_nat p)) ->
            ring_of cf st' c g t p = ring_of cf st c g t p).
  { intros c0 cl0 cl' Hc0 E Hk. rewrite (Hset c0 cl0 cl' false Hc0 E Hk). rewrite andb_false_r. reflexivity. }
  assert (Hnone : forall c0 (b : bool), get st c0 = None -> st' = st ->
            ring_of cf st' c g t p = if (c0 =? c) && b then new_ring N else ring_of cf st c g t p).
  { intros c0 b Hc0 ->. destruct (c0 =? c) eqn:E; cbn [andb]; [|reflexivity]. apply Z.eqb_eq in E. subst c0.
    destruct b; [|reflexivity]. unfold ring_of. rewrite Hc0. reflexivity. }
  destruct r as [c0 t0 p0 cnt off|c0 g0 t0 p0 off order ts|c0 g0 t0 p0 owner client|c0 g0|c0 t0|c0 g0 t0| |c0|c0|c0 g0|c0 t0|c0 t0];
    cbn [step] in Hstep; cbn [resets].
  - destruct Hr as [Hp Hoff]. destruct (get st c0) as [cl0|] eqn:Hc0;
      [|unfold add_broker_offset in Hstep; rewrite Hc0 in Hstep; injection Hstep as <- _; reflexivity].
    destruct (abo_inv cf st c0 cl0 t0 p0 cnt off (last_broker h c0)
                (fun t' p' => if (t' =? t0) && (p' =? p0) then Some off else last_broker h c0 t' p')
                (commit_ok h c0) HN Hc0 (Hinv c0 cl0 Hc0) Hp Hoff) as (cl' & Hs & Hcons & _).
    + rewrite !Z.eqb_refl. reflexivity.
    + intros t' p' Hd. destruct (t' =? t0) eqn:E1; [|reflexivity]. destruct (p' =? p0) eqn:E2; [lia|reflexivity].
    + rewrite Hs in Hstep. injection Hstep as <- _. eapply Hsame; [exact Hc0|reflexivity|].
      intros _. unfold cons_topic. rewrite Hcons. reflexivity.
  - destruct (get st c0) as [cl0|] eqn:Hc0;
      [|unfold add_consumer_offset in Hstep; rewrite Hc0 in Hstep; injection Hstep as <- _; reflexivity].
    destruct (aco_inv cf now st c0 cl0 g0 t0 p0 off order ts (last_broker h c0) (fun _ _ _ _ => True) Hc0) as
      [[_ Hs]|(cl' & boff & w1 & app & _ & Hs & _ & _ & _ & _ & Hp00 & _ & _ & Hfr & _)].
    + eapply cinv_impl; [reflexivity| |apply Hinv; exact Hc0]. intros; exact I.
    + intros; exact I.
    + rewrite Hs in Hstep. injection Hstep as <- _. reflexivity.
    + rewrite Hs in Hstep. injection Hstep as <- _. eapply Hsame; [exact Hc0|reflexivity|].
      intros ->. apply Hfr.
      destruct (Z.eq_dec g g0) as [->|]; [|left; assumption]. destruct (Z.eq_dec t t0) as [->|]; [|right; left; assumption].
      right. right. intros E. apply (Hnot off order ts). f_equal. lia.
  - destruct (get st c0) as [cl0|] eqn:Hc0;
      [|unfold add_consumer_owner in Hstep; rewrite Hc0 in Hstep; injection Hstep as <- _; reflexivity].
    destruct (aown_inv cf st c0 cl0 g0 t0 p0 owner client _ _ Hc0 (Hinv c0 cl0 Hc0)) as [[_ Hs]|(cl' & _ & Hs & _ & _ & Hfr & _)];
      rewrite Hs in Hstep; injection Hstep as <- _; [reflexivity|].
    eapply Hsame; [exact Hc0|reflexivity|]. intros _. apply Hfr.
  - destruct (get st c0) as [cl0|] eqn:Hc0;
      [|unfold clear_consumer_owners in Hstep; rewrite Hc0 in Hstep; injection Hstep as <- _; reflexivity].
    destruct (clear_inv cf st c0 cl0 g0 _ _ Hc0 (Hinv c0 cl0 Hc0)) as [Hs|(cl' & Hs & _ & _ & Hfr & _)];
      rewrite Hs in Hstep; injection Hstep as <- _; [reflexivity|].
    eapply Hsame; [exact Hc0|reflexivity|]. intros _. apply Hfr.
  - (* DeleteTopic *)
    destruct (get st c0) as [cl0|] eqn:Hc0.
    + destruct (delete_topic_rings N st c0 cl0 t0 Hc0) as (cl' & Hs & Hfr).
      rewrite Hs in Hstep. injection Hstep as <- _.
      rewrite (Z.eqb_sym t0 t). eapply Hset; [exact Hc0|reflexivity|]. intros _. apply Hfr.
    + unfold delete_topic in Hstep. rewrite Hc0 in Hstep. injection Hstep as <- _. apply Hnone; [exact Hc0|reflexivity].
  - (* DeleteGroup *)
    destruct (get st c0) as [cl0|] eqn:Hc0.
    + destruct (delete_group_rings N st c0 cl0 g0 t0 Hc0) as [[Hs Hnog]|(cl' & Hs & Hfr)];
        rewrite Hs in Hstep; injection Hstep as <- _.
      * destruct (c0 =? c) eqn:Ec; cbn [andb]; [|reflexivity]. apply Z.eqb_eq in Ec. subst c0.
        destruct (g0 =? g) eqn:Eg; cbn [andb]; [|reflexivity]. apply Z.eqb_eq in Eg. subst g0.
        destruct ((t0 =? 0) || (t =? t0)); [|reflexivity].
        unfold ring_of. rewrite Hc0. unfold cons_topic. rewrite Hnog. apply ring_at_nil.
      * rewrite <- andb_assoc. eapply Hset; [exact Hc0|reflexivity|]. intros _.
        rewrite Hfr. rewrite (Z.eqb_sym g g0). reflexivity.
    + unfold delete_group in Hstep. rewrite Hc0 in Hstep. injection Hstep as <- _.
      rewrite <- andb_assoc. apply Hnone; [exact Hc0|reflexivity].
  - injection Hstep as <- _. reflexivity.
  - destruct (get st c0); injection Hstep as <- _; reflexivity.
  - destruct (get st c0); injection Hstep as <- _; reflexivity.
  - (* FetchConsumer *)
    destruct (get st c0) as [cl0|] eqn:Hc0.
    + pose proof (fetch_consumer_rings N cf now st c0 cl0 g0 Hc0) as Hf.
      destruct (c0 =? c) eqn:Ec; cbn [andb].
      * apply Z.eqb_eq in Ec. subst c0. destruct (g0 =? g) eqn:Eg; cbn [andb].
        -- apply Z.eqb_eq in Eg. subst g0. destruct (group_expired cf now st c g).
           ++ destruct Hf as (cl' & Hs & Hfr). rewrite Hs in Hstep. injection Hstep as <- _.
              rewrite ring_of_set_same. rewrite Hfr, Z.eqb_refl. reflexivity.
           ++ rewrite (Hf st' rep Hstep). reflexivity.
        -- apply Z.eqb_neq in Eg. destruct (group_expired cf now st c g0).
           ++ destruct Hf as (cl' & Hs & Hfr). rewrite Hs in Hstep. injection Hstep as <- _.
              rewrite ring_of_set_same. rewrite Hfr. destruct (g =? g0) eqn:E; [lia|]. unfold ring_of. rewrite Hc0. reflexivity.
           ++ rewrite (Hf st' rep Hstep). reflexivity.
      * apply Z.eqb_neq in Ec. destruct (group_expired cf now st c0 g0).
        -- destruct Hf as (cl' & Hs & _). rewrite Hs in Hstep. injection Hstep as <- _. apply ring_of_set_other. exact Ec.
        -- rewrite (Hf st' rep Hstep). reflexivity.
    + unfold fetch_consumer in Hstep. rewrite Hc0 in Hstep. injection Hstep as <- _.
      destruct ((c0 =? c) && (g0 =? g)) eqn:E; cbn [andb]; [|reflexivity].
      apply andb_true_iff in E. destruct E as [Ec _]. apply Z.eqb_eq in Ec. subst c0.
      unfold group_expired. rewrite Hc0. reflexivity.
  - unfold fetch_topic in Hstep. destruct (get st c0) as [cl0|]; [destruct (get (cl_broker cl0) t0)|];
      injection Hstep as <- _; reflexivity.
  - unfold fetch_consumers_for_topic in Hstep. destruct (get st c0); injection Hstep as <- _; reflexivity.
Qed.

(* a commit for (c,g,t,p): dropped before the ring (state unchanged), or handed to ring_step with the lag computed
   against the last recorded broker offset *)
Theorem commit_ring_step cf cls h st reps now c g t p off order ts st' rep :
  (1 <= cf_intervals cf)%nat -> wf_hist h ->
  run cf (init_state cls) h = Some (st, reps) ->
  step cf now st (SetConsumerOffset c g t p off order ts) = Done st' rep ->
  match reaches_ring cf now st c g t p ts with
  | None => st' = st
  | Some boff =>
      0 <= p /\ last_broker h c t p = Some boff /\
      ring_of cf st' c g t p =
      fst (ring_step (cf_min_distance cf) (ring_of cf st c g t p) (mkCommit off order ts) (commit_lag boff off))
  end.
Proof.
  intros HN Hwf Hrun Hstep. pose proof (run_reaches_hinv _ _ _ _ _ HN Hwf Hrun) as Hinv. cbn [step] in Hstep.
  destruct (get st c) as [cl|] eqn:Hc.
  - destruct (aco_inv cf now st c cl g t p off order ts (last_broker h c) (fun _ _ _ _ => True) Hc) as
      [[Hr Hs]|(cl' & boff & w1 & app & Hr & Hs & _ & _ & Hlb & _ & Hp0 & Hrs & Hw1 & _)].
    + eapply cinv_impl; [reflexivity| |apply Hinv; exact Hc]. intros; exact I.
    + intros; exact I.
    + rewrite Hr. rewrite Hs in Hstep. injection Hstep as <- _. reflexivity.
    + rewrite Hr. rewrite Hs in Hstep. injection Hstep as <- _. split; [exact Hp0|]. split; [exact Hlb|].
      rewrite ring_of_set_same, Hw1. unfold ring_of. rewrite Hc, Hrs. reflexivity.
  - unfold reaches_ring. rewrite Hc. unfold add_consumer_offset in Hstep. rewrite Hc in Hstep. injection Hstep as <- _. reflexivity.
Qed.

(* ================================================================================================ *)
(* 6. state-free reading of the drop rules                                                          *)
(* ================================================================================================ *)

(* the newest recorded offset of broker partition (t, i) of a cluster; None when the topic, the partition or the
   value is missing (the three "drop" answers of getBrokerOffset besides a negative partition) *)
Definition newest_of (cl : cluster) (t : Z) (i : nat) : option Z :=
  match get (cl_broker cl) t with
  | Some tl => match nth_error tl i with Some r => last r None | None => None end
  | None => None
  end.

Lemma gbo_newest cl t p :
  get_broker_offset cl t p =
  match (if p <? 0 then None else newest_of cl t (Z.to_nat p)) with
  | Some b => (b, match get (cl_broker cl) t with Some tl => Z.of_nat (length tl) | None => 0 end)
  | None => (0, 0)
  end.
Proof.
  unfold get_broker_offset, newest_of. destruct (get (cl_broker cl) t) as [tl|]; [|destruct (p <? 0); reflexivity].
  destruct (p <? 0) eqn:E1; [reflexivity|].
  destruct (Z.of_nat (length tl) <=? p) eqn:E2.
  - assert (H : nth_error tl (Z.to_nat p) = None) by (apply nth_error_None; lia). rewrite H. reflexivity.
  - assert (Hl : (Z.to_nat p < length tl)%nat) by lia.
    rewrite (nth_nth_error tl (Z.to_nat p) [] Hl). destruct (last (nth (Z.to_nat p) tl []) None); reflexivity.
Qed.

Lemma gbo_known cl t p :
  snd (get_broker_offset cl t p) <> 0 <-> 0 <= p /\ newest_of cl t (Z.to_nat p) <> None.
Proof.
  rewrite gbo_newest. destruct (p <? 0) eqn:E1; [cbn; split; [congruence|lia]|].
  unfold newest_of. destruct (get (cl_broker cl) t) as [tl|]; [|cbn; split; [congruence|intros [_ H]; congruence]].
  destruct (nth_error tl (Z.to_nat p)) as [r|] eqn:Er; [|cbn; split; [congruence|intros [_ H]; congruence]].
  destruct (last r None) as [b|]; cbn; [|split; [congruence|intros [_ H]; congruence]].
  assert (Z.to_nat p < length tl)%nat by (apply nth_error_Some; congruence).
  split; [intros _; split; [lia|discriminate]|intros _; lia].
Qed.

(* -- what each request does to the broker side and to the set of clusters -- *)
Definition same_broker (st st' : state) : Prop :=
  st' = st \/ exists c0 cl0 cl', get st c0 = Some cl0 /\ st' = set st c0 cl' /\ cl_broker cl' = cl_broker cl0.

Lemma newest_of_abo cf st c0 cl0 t0 p0 cnt off st' rep :
  get st c0 = Some cl0 -> add_broker_offset cf st c0 t0 p0 cnt off = Done st' rep ->
  exists cl', st' = set st c0 cl' /\
    forall t i, newest_of cl' t i = if (t =? t0) && (Z.of_nat i =? p0) then Some off else newest_of cl0 t i.
Proof.
  intros Hc. unfold add_broker_offset. rewrite Hc.
  set (tl0 := match get (cl_broker cl0) t0 with Some l => l | None => [] end).
  set (tl1 := if Z.of_nat (length tl0) <=? cnt
              then tl0 ++ repeat (repeat None (cf_intervals cf)) (Z.to_nat cnt - length tl0) else tl0).
  destruct ((p0 <? 0) || (Z.of_nat (length tl1) <=? p0)) eqn:Ecr; [discriminate|].
  intros H. injection H as <- _. eexists. split; [reflexivity|].
  assert (Hext : exists n, tl1 = tl0 ++ repeat (repeat None (cf_intervals cf)) n).
  { unfold tl1. destruct (Z.of_nat (length tl0) <=? cnt); [eexists; reflexivity|]. exists 0%nat. cbn. rewrite app_nil_r. reflexivity. }
  assert (Hlen1 : (Z.to_nat p0 < length tl1)%nat) by lia.
  assert (Hold : forall i, match nth_error tl1 i with Some r => last r None | None => None end = newest_of cl0 t0 i).
  { intros i. unfold newest_of. fold tl0.
    assert (E0 : match get (cl_broker cl0) t0 with
                 | Some tl => match nth_error tl i with Some r => last r None | None => None end
                 | None => None end = match nth_error tl0 i with Some r => last r None | None => None end).
    { unfold tl0. destruct (get (cl_broker cl0) t0); [reflexivity|]. destruct i; reflexivity. }
    rewrite E0. destruct Hext as [n ->]. destruct (lt_dec i (length tl0)) as [Hl|Hl].
    - rewrite nth_error_app1 by exact Hl. reflexivity.
    - assert (Hn : nth_error tl0 i = None) by (apply nth_error_None; lia). rewrite Hn.
      destruct (nth_error (tl0 ++ repeat (repeat None (cf_intervals cf)) n) i) as [r|] eqn:Er; [|reflexivity].
      apply nth_error_app_repeat in Er. destruct Er as [Er| ->]; [congruence|apply last_repeat_none]. }
  intros t i. unfold newest_of at 1. cbn [cl_broker]. destruct (t =? t0) eqn:Et; cbn [andb].
  - apply Z.eqb_eq in Et. subst t. rewrite get_set_eq. destruct (Z.of_nat i =? p0) eqn:Ei.
    + assert (i = Z.to_nat p0) by lia. subst i. rewrite nth_error_set_nth_eq by exact Hlen1. apply last_last.
    + rewrite nth_error_set_nth_neq by lia. apply Hold.
  - apply Z.eqb_neq in Et. rewrite get_set_neq by congruence. reflexivity.
Qed.

Lemma newest_of_dtopic st c0 cl0 t0 st' rep :
  get st c0 = Some cl0 -> delete_topic st c0 t0 = Done st' rep ->
  exists cl', st' = set st c0 cl' /\ forall t i, newest_of cl' t i = if t =? t0 then None else newest_of cl0 t i.
Proof.
  intros Hc. unfold delete_topic. rewrite Hc. intros H. injection H as <- _. eexists. split; [reflexivity|].
  intros t i. unfold newest_of. cbn [cl_broker]. destruct (t =? t0) eqn:Et.
  - apply Z.eqb_eq in Et. subst t. rewrite get_remove_eq. reflexivity.
  - apply Z.eqb_neq in Et. rewrite get_remove_neq by congruence. reflexivity.
Qed.

Definition touches_broker (r : req) : bool :=
  match r with SetBrokerOffset _ _ _ _ _ | DeleteTopic _ _ => true | _ => false end.

Lemma step_same_broker cf now st r st' rep :
  touches_broker r = false -> step cf now st r = Done st' rep -> same_broker st st'.
Proof.
  intros Ht. destruct r as [c0 t0 p0 cnt off|c0 g0 t0 p0 off order ts|c0 g0 t0 p0 owner client|c0 g0|c0 t0|c0 g0 t0| |c0|c0|c0 g0|c0 t0|c0 t0];
    try discriminate; cbn [step].
  - unfold add_consumer_offset. destruct (get st c0) as [cl0|] eqn:Hc; [|intros H; injection H as <- _; left; reflexivity].
    destruct (too_old cf now ts); [intros H; injection H as <- _; left; reflexivity|].
    destruct (negb (cf_accept cf g0)); [intros H; injection H as <- _; left; reflexivity|].
    destruct (get_broker_offset cl0 t0 p0) as [boff cnt].
    destruct (cnt =? 0); [intros H; injection H as <- _; left; reflexivity|].
    destruct (ring_step _ _ _ _) as [w' app]. intros H. injection H as <- _. right. eexists _, _, _. split; [exact Hc|]. split; reflexivity.
  - unfold add_consumer_owner. destruct (get st c0) as [cl0|] eqn:Hc; [|intros H; injection H as <- _; left; reflexivity].
    destruct (negb (cf_accept cf g0)); [intros H; injection H as <- _; left; reflexivity|].
    destruct (get_broker_offset cl0 t0 p0) as [boff cnt].
    destruct (cnt =? 0); intros H; injection H as <- _; right; eexists _, _, _; (split; [exact Hc|]); split; reflexivity.
  - unfold clear_consumer_owners. destruct (get st c0) as [cl0|] eqn:Hc; [|intros H; injection H as <- _; left; reflexivity].
    destruct (negb (cf_accept cf g0)); [intros H; injection H as <- _; left; reflexivity|].
    destruct (get (cl_consumer cl0) g0); intros H; injection H as <- _; [|left; reflexivity].
    right; eexists _, _, _; (split; [exact Hc|]); split; reflexivity.
  - unfold delete_group. destruct (get st c0) as [cl0|] eqn:Hc; [|intros H; injection H as <- _; left; reflexivity].
    destruct (get (cl_consumer cl0) g0) as [grp|]; [|intros H; injection H as <- _; left; reflexivity].
    destruct (t0 =? 0); [intros H; injection H as <- _; right; eexists _, _, _; (split; [exact Hc|]); split; reflexivity|].
    destruct (remove (g_topics grp) t0); [destruct (get (g_topics grp) t0)|]; intros H; injection H as <- _; right; eexists _, _, _; (split; [exact Hc|]); split; reflexivity.
  - intros H. injection H as <- _. left; reflexivity.
  - destruct (get st c0); intros H; injection H as <- _; left; reflexivity.
  - destruct (get st c0); intros H; injection H as <- _; left; reflexivity.
  - unfold fetch_consumer. destruct (get st c0) as [cl0|] eqn:Hc; [|intros H; injection H as <- _; left; reflexivity].
    destruct (get (cl_consumer cl0) g0) as [grp|]; [|intros H; injection H as <- _; left; reflexivity].
    destruct (expired cf now (g_last grp)).
    + intros H; injection H as <- _; right; eexists _, _, _; (split; [exact Hc|]); split; reflexivity.
    + destruct (fetch_topics_lags _ _); [|discriminate]. intros H; injection H as <- _. left; reflexivity.
  - unfold fetch_topic. destruct (get st c0) as [cl0|]; [destruct (get (cl_broker cl0) t0)|]; intros H; injection H as <- _; left; reflexivity.
  - unfold fetch_consumers_for_topic. destruct (get st c0); intros H; injection H as <- _; left; reflexivity.
Qed.

(* -- the spec side: is a broker offset known for (c,t,p) according to the history alone? -- *)
(* the verdict of the last request that matters: a SetBrokerOffset for exactly (c,t,p) says yes, a DeleteTopic c t says no *)
Definition bk_event (c t p : Z) (r : req) : option bool :=
  match r with
  | SetBrokerOffset c' t' p' _ _ => if (c' =? c) && (t' =? t) && (p' =? p) then Some true else None
  | DeleteTopic c' t' => if (c' =? c) && (t' =? t) then Some false else None
  | _ => None
  end.

Fixpoint bk_last (h : hist) (c t p : Z) : option bool :=
  match h with
  | [] => None
  | (_, r) :: rest => match bk_last rest c t p with Some b => Some b | None => bk_event c t p r end
  end.

(* true iff h contains a SetBrokerOffset for (c,t,p) that no DeleteTopic c t follows *)
Definition broker_known (h : hist) (c t p : Z) : bool := match bk_last h c t p with Some b => b | None => false end.

Lemma bk_last_app h1 h2 c t p :
  bk_last (h1 ++ h2) c t p = match bk_last h2 c t p with Some b => Some b | None => bk_last h1 c t p end.
Proof.
  induction h1 as [|[now r] h1 IH]; cbn [app bk_last]; [destruct (bk_last h2 c t p); reflexivity|].
  rewrite IH. destruct (bk_last h2 c t p); reflexivity.
Qed.

Lemma bk_last_snoc h now r c t p :
  bk_last (h ++ [(now, r)]) c t p = match bk_event c t p r with Some b => Some b | None => bk_last h c t p end.
Proof. rewrite bk_last_app. cbn [bk_last]. destruct (bk_event c t p r); reflexivity. Qed.

Lemma broker_known_spec h c t p :
  broker_known h c t p = true <->
  exists h1 now cnt off h2, h = h1 ++ (now, SetBrokerOffset c t p cnt off) :: h2 /\
                            forall now' , ~ In (now', DeleteTopic c t) h2.
Proof.
  unfold broker_known. induction h as [|[now r] h IH] using rev_ind.
  - cbn. split; [discriminate|]. intros (h1 & now & cnt & off & h2 & E & _). destruct h1; discriminate.
  - rewrite bk_last_snoc. destruct (bk_event c t p r) as [b|] eqn:Eev.
    + destruct r; cbn in Eev; try discriminate.
      * destruct ((c0 =? c) && (t0 =? t) && (p0 =? p)) eqn:E; [|discriminate]. injection Eev as <-.
        apply andb_true_iff in E. destruct E as [E E3]. apply andb_true_iff in E. destruct E as [E1 E2].
        apply Z.eqb_eq in E1, E2, E3. subst. split; [intros _|reflexivity].
        exists h, now, cnt, off, []. split; [reflexivity|]. intros now' [].
      * destruct ((c0 =? c) && (t0 =? t)) eqn:E; [|discriminate]. injection Eev as <-.
        apply andb_true_iff in E. destruct E as [E1 E2]. apply Z.eqb_eq in E1, E2. subst.
        split; [discriminate|]. intros (h1 & now1 & cnt & off & h2 & E & Hno). exfalso.
        destruct h2 as [|x h2] using rev_ind.
        -- apply app_inj_tail in E. destruct E as [_ E]. discriminate.
        -- rewrite app_comm_cons, app_assoc in E. apply app_inj_tail in E. destruct E as [_ <-].
           apply (Hno now). apply in_or_app. right. left. reflexivity.
    + rewrite IH. split.
      * intros (h1 & now1 & cnt & off & h2 & -> & Hno). exists h1, now1, cnt, off, (h2 ++ [(now, r)]).
        split; [rewrite <- app_assoc; reflexivity|]. intros now' Hin. apply in_app_or in Hin. destruct Hin as [Hin|[E|[]]].
        -- apply (Hno now' Hin).
        -- injection E as -> ->. cbn in Eev. rewrite !Z.eqb_refl in Eev. discriminate.
      * intros (h1 & now1 & cnt & off & h2 & E & Hno). destruct h2 as [|x h2] using rev_ind.
        -- apply app_inj_tail in E. destruct E as [_ E]. injection E as -> ->. cbn in Eev. rewrite !Z.eqb_refl in Eev. discriminate.
        -- rewrite app_comm_cons, app_assoc in E. apply app_inj_tail in E. destruct E as [-> <-].
           exists h1, now1, cnt, off, h2. split; [reflexivity|]. intros now' Hin. apply (Hno now'). apply in_or_app. left; exact Hin.
Qed.

(* -- clusters: exactly the configured ones, for ever -- *)
Lemma get_init_state cls c : get (init_state cls) c <> None <-> In c cls.
Proof.
  unfold init_state. induction cls as [|c0 cls IH]; cbn; [tauto|]. destruct (c0 =? c) eqn:E.
  - apply Z.eqb_eq in E. split; [auto|discriminate].
  - apply Z.eqb_neq in E. rewrite IH. split; [auto|intros [H|H]; [congruence|exact H]].
Qed.

Lemma get_set_none_iff {V} (m : amap V) k v k' : get m k <> None -> (get (set m k v) k' <> None <-> get m k' <> None).
Proof.
  intros Hk. destruct (Z.eq_dec k k') as [->|Hne]; [rewrite get_set_eq; split; [auto|discriminate]|].
  rewrite get_set_neq by exact Hne. tauto.
Qed.

(* the invariant: known clusters, and for each the broker side read off the history *)
Definition bk_inv (cls : list Z) (h : hist) (st : state) : Prop :=
  (forall c, get st c <> None <-> In c cls) /\
  forall c cl t i, get st c = Some cl ->
    newest_of cl t i = if broker_known h c t (Z.of_nat i) then last_broker h c t (Z.of_nat i) else None.

Lemma bk_inv_step cf cls h st now r st' rep :
  bk_inv cls h st -> step cf now st r = Done st' rep -> bk_inv cls (h ++ [(now, r)]) st'.
Proof.
  intros [Hcl Hbk] Hstep.
  assert (Hkeep : forall c t p, bk_event c t p r = None -> is_broker c t p r = None ->
            broker_known (h ++ [(now, r)]) c t p = broker_known h c t p /\
            last_broker (h ++ [(now, r)]) c t p = last_broker h c t p).
  { intros c t p E1 E2. unfold broker_known. rewrite bk_last_snoc, last_broker_snoc, E1, E2. auto. }
  destruct (touches_broker r) eqn:Etb.
  - destruct r as [c0 t0 p0 cnt off| | | |c0 t0| | | | | | |]; try discriminate; cbn [step] in Hstep.
    + (* SetBrokerOffset *)
      destruct (get st c0) as [cl0|] eqn:Hc0.
      * destruct (newest_of_abo cf st c0 cl0 t0 p0 cnt off st' rep Hc0 Hstep) as (cl' & -> & Hn). split.
        -- intros c. rewrite get_set_none_iff by congruence. apply Hcl.
        -- intros c cl t i Hg. unfold broker_known. rewrite bk_last_snoc, last_broker_snoc. cbn [bk_event is_broker].
           apply get_set_inv in Hg. destruct Hg as [[-> ->]|[Hne Hg]].
           ++ rewrite Hn, Z.eqb_refl. cbn [andb]. destruct ((t0 =? t) && (p0 =? Z.of_nat i)) eqn:E.
              ** apply andb_true_iff in E. destruct E as [E1 E2]. rewrite (Z.eqb_sym t t0), E1, (Z.eqb_sym _ p0), E2. reflexivity.
              ** assert (E' : (t =? t0) && (Z.of_nat i =? p0) = false) by (rewrite (Z.eqb_sym t t0), (Z.eqb_sym _ p0); exact E).
                 rewrite E'. apply (Hbk c0 cl0 t i Hc0).
           ++ destruct (c0 =? c) eqn:E; [lia|]. cbn [andb]. apply (Hbk c cl t i Hg).
      * unfold add_broker_offset in Hstep. rewrite Hc0 in Hstep. injection Hstep as <- _. split; [exact Hcl|].
        intros c cl t i Hg. unfold broker_known. rewrite bk_last_snoc, last_broker_snoc. cbn [bk_event is_broker].
        destruct (c0 =? c) eqn:E; [assert (c0 = c) by lia; congruence|]. cbn [andb]. apply (Hbk c cl t i Hg).
    + (* DeleteTopic *)
      destruct (get st c0) as [cl0|] eqn:Hc0.
      * destruct (newest_of_dtopic st c0 cl0 t0 st' rep Hc0 Hstep) as (cl' & -> & Hn). split.
        -- intros c. rewrite get_set_none_iff by congruence. apply Hcl.
        -- intros c cl t i Hg. unfold broker_known. rewrite bk_last_snoc, last_broker_snoc. cbn [bk_event is_broker].
           apply get_set_inv in Hg. destruct Hg as [[-> ->]|[Hne Hg]].
           ++ rewrite Hn, Z.eqb_refl. cbn [andb]. rewrite (Z.eqb_sym t t0). destruct (t0 =? t); [reflexivity|apply (Hbk c0 cl0 t i Hc0)].
           ++ destruct (c0 =? c) eqn:E; [lia|]. cbn [andb]. apply (Hbk c cl t i Hg).
      * unfold delete_topic in Hstep. rewrite Hc0 in Hstep. injection Hstep as <- _. split; [exact Hcl|].
        intros c cl t i Hg. unfold broker_known. rewrite bk_last_snoc, last_broker_snoc. cbn [bk_event is_broker].
        destruct (c0 =? c) eqn:E; [assert (c0 = c) by lia; congruence|]. cbn [andb]. apply (Hbk c cl t i Hg).
  - assert (Hev : forall c t p, bk_event c t p r = None /\ is_broker c t p r = None).
    { intros c t p. destruct r; try discriminate; auto. }
    destruct (step_same_broker cf now st r st' rep Etb Hstep) as [->|(c0 & cl0 & cl' & Hc0 & -> & Hbr)].
    + split; [exact Hcl|]. intros c cl t i Hg. destruct (Hev c t (Z.of_nat i)) as [E1 E2].
      destruct (Hkeep c t (Z.of_nat i) E1 E2) as [-> ->]. apply (Hbk c cl t i Hg).
    + split; [intros c; rewrite get_set_none_iff by congruence; apply Hcl|].
      intros c cl t i Hg. destruct (Hev c t (Z.of_nat i)) as [E1 E2].
      destruct (Hkeep c t (Z.of_nat i) E1 E2) as [-> ->].
      apply get_set_inv in Hg. destruct Hg as [[-> ->]|[Hne Hg]]; [|apply (Hbk c cl t i Hg)].
      unfold newest_of. rewrite Hbr. apply (Hbk c0 cl0 t i Hc0).
Qed.

Theorem run_bk_inv cf cls h st reps : run cf (init_state cls) h = Some (st, reps) -> bk_inv cls h st.
Proof.
  revert st reps. induction h as [|[now r] h IH] using rev_ind; intros st reps Hrun.
  - cbn in Hrun. injection Hrun as <- _. split; [apply get_init_state|].
    intros c cl t i Hg. cbn.
    assert (cl = mkCluster [] []).
    { unfold init_state in Hg. induction cls as [|c0 cls IHc]; cbn in Hg; [discriminate|]. destruct (c0 =? c); [congruence|auto]. }
    subst cl. reflexivity.
  - rewrite run_snoc in Hrun. destruct (run cf (init_state cls) h) as [[st1 r1]|] eqn:Hrun1; [|discriminate].
    destruct (step cf now st1 r) as [st2 rep|] eqn:Hstep; [|discriminate]. injection Hrun as <- _.
    eapply bk_inv_step; [apply (IH st1 r1 eq_refl)|exact Hstep].
Qed.

Definition in_cls (c : Z) (cls : list Z) : bool := existsb (Z.eqb c) cls.
Lemma in_cls_spec c cls : in_cls c cls = true <-> In c cls.
Proof.
  unfold in_cls. rewrite existsb_exists. split; [intros (x & Hx & E); apply Z.eqb_eq in E; subst; exact Hx|].
  intros H. exists c. split; [exact H|apply Z.eqb_refl].
Qed.

(* "a broker offset is known for (c,t,p) in the state reached by h" (getBrokerOffset answers with a partition count
   other than 0) iff c is a configured cluster, p >= 0, and h contains a SetBrokerOffset for exactly (c,t,p) that no
   DeleteTopic c t follows; and then the offset it answers is last_broker h c t p.  No hypothesis on h besides that
   storage ran it (a crashing request makes run None).  Announced counts do not matter: rings created only because a
   larger count was announced hold no value, a smaller announced count is ignored by storage. *)
Theorem broker_known_iff_history cf cls h st reps c t p :
  run cf (init_state cls) h = Some (st, reps) ->
  ((exists cl, get st c = Some cl /\ snd (get_broker_offset cl t p) <> 0) <->
   (In c cls /\ 0 <= p /\ broker_known h c t p = true)) /\
  (forall cl, get st c = Some cl -> snd (get_broker_offset cl t p) <> 0 ->
              last_broker h c t p = Some (fst (get_broker_offset cl t p))).
Proof.
  intros Hrun. destruct (run_bk_inv cf cls h st reps Hrun) as [Hcl Hbk]. split; [split|].
  - intros (cl & Hg & Hk). apply gbo_known in Hk. destruct Hk as [Hp Hn]. split; [apply Hcl; congruence|]. split; [exact Hp|].
    rewrite (Hbk c cl t (Z.to_nat p) Hg), Z2Nat.id in Hn by exact Hp. destruct (broker_known h c t p); [reflexivity|congruence].
  - intros (Hin & Hp & Hk). apply Hcl in Hin. destruct (get st c) as [cl|] eqn:Hg; [|congruence].
    exists cl. split; [reflexivity|]. apply gbo_known. split; [exact Hp|].
    rewrite (Hbk c cl t (Z.to_nat p) Hg), Z2Nat.id, Hk by exact Hp.
    apply broker_known_spec in Hk. destruct Hk as (h1 & now & cnt & off & h2 & -> & _).
    rewrite last_broker_app. cbn [last_broker is_broker]. rewrite !Z.eqb_refl. cbn [andb].
    destruct (last_broker h2 c t p); discriminate.
  - intros cl Hg Hk. pose proof Hk as Hk'. apply gbo_known in Hk'. destruct Hk' as [Hp Hn].
    pose proof (Hbk c cl t (Z.to_nat p) Hg) as E. rewrite Z2Nat.id in E by exact Hp.
    rewrite gbo_newest in *. assert (Hlt : (p <? 0) = false) by lia. rewrite Hlt in *.
    destruct (newest_of cl t (Z.to_nat p)) as [b|]; [|congruence]. cbn [fst].
    destruct (broker_known h c t p); [symmetry; exact E|discriminate].
Qed.

(* the four drop rules of addConsumerOffset read off the configuration, the request and the history alone *)
Theorem reaches_ring_history cf cls h st reps now c g t p ts :
  run cf (init_state cls) h = Some (st, reps) ->
  reaches_ring cf now st c g t p ts =
  if in_cls c cls && negb (too_old cf now ts) && cf_accept cf g && (0 <=? p) && broker_known h c t p
  then last_broker h c t p else None.
Proof.
  intros Hrun. destruct (broker_known_iff_history cf cls h st reps c t p Hrun) as [Hiff Hval].
  destruct (run_bk_inv cf cls h st reps Hrun) as [Hcl _]. unfold reaches_ring.
  destruct (get st c) as [cl|] eqn:Hg.
  - assert (Hin : in_cls c cls = true) by (apply in_cls_spec, Hcl; congruence). rewrite Hin. cbn [andb].
    destruct (too_old cf now ts); [reflexivity|]. cbn [negb andb].
    destruct (cf_accept cf g); [|reflexivity]. cbn [negb andb].
    destruct (get_broker_offset cl t p) as [boff cnt] eqn:Eg. destruct (cnt =? 0) eqn:E0.
    + destruct ((0 <=? p) && broker_known h c t p) eqn:Ec; [|reflexivity]. exfalso.
      apply andb_true_iff in Ec. destruct Ec as [Ep Ek].
      destruct (proj2 Hiff) as (cl' & Hg' & Hs); [split; [apply in_cls_spec; exact Hin|split; [lia|exact Ek]]|].
      assert (cl' = cl) by congruence. subst cl'. rewrite Eg in Hs. cbn in Hs. lia.
    + assert (Hs : snd (get_broker_offset cl t p) <> 0) by (rewrite Eg; cbn; lia).
      destruct (proj1 Hiff (ex_intro _ cl (conj eq_refl Hs))) as (_ & Hp & Hk).
      assert (Ep : (0 <=? p) = true) by lia. rewrite Ep, Hk. cbn [andb].
      rewrite (Hval cl eq_refl Hs), Eg. reflexivity.
  - assert (Hin : in_cls c cls = false).
    { destruct (in_cls c cls) eqn:E; [|reflexivity]. apply in_cls_spec, Hcl in E. congruence. }
    rewrite Hin. reflexivity.
Qed.

(* ================================================================================================ *)
(* 7. lastCommit and the topic keys of a group, step by step (what the expiry purge and DeleteGroup read) *)
(* ================================================================================================ *)

Definition ginfo (st : state) (c g : Z) : option (Z * list Z) :=
  match get st c with Some cl => ginfo_cl cl g | None => None end.

Lemma group_expired_ginfo cf now st c g :
  group_expired cf now st c g = match ginfo st c g with Some (L, _) => expired cf now L | None => false end.
Proof.
  unfold group_expired, ginfo, ginfo_cl. destruct (get st c) as [cl|]; [|reflexivity].
  destruct (get (cl_consumer cl) g); reflexivity.
Qed.

Lemma ginfo_set_same st c cl' g : ginfo (set st c cl') c g = ginfo_cl cl' g.
Proof. unfold ginfo. rewrite get_set_eq. reflexivity. Qed.
Lemma ginfo_set_other st c0 cl' c g : c0 <> c -> ginfo (set st c0 cl') c g = ginfo st c g.
Proof. intros H. unfold ginfo. rewrite get_set_neq by exact H. reflexivity. Qed.

(* one request's effect on (lastCommit, topic keys) of group (c,g).
   ceff: for a commit of this group, None = dropped before the ring, Some sto = handed to the ring, sto = "stored by it" (not a duplicate / backfill into a full ring);
   oeff: for an owner request of this group, None = ignored, Some kb = accepted, kb = "a broker offset is known for the partition" *)
Definition ginfo_next (cf : config) (now c g : Z)
           (ceff : Z -> Z -> Z -> Z -> Z -> option bool) (oeff : Z -> Z -> option bool)
           (r : req) (G : option (Z * list Z)) : option (Z * list Z) :=
  match r with
  | SetConsumerOffset c' g' t p off order ts =>
      if (c' =? c) && (g' =? g)
      then match ceff t p off order ts with
           | Some sto => Some ((if sto then Z.max ts (glast0 G) else glast0 G), t :: drop_key t (gkeys0 G))
           | None => G
           end
      else G
  | SetConsumerOwner c' g' t p _ _ =>
      if (c' =? c) && (g' =? g)
      then match oeff t p with
           | Some kb => Some (glast0 G, if kb then t :: drop_key t (gkeys0 G) else gkeys0 G)
           | None => G
           end
      else G
  | DeleteTopic c' t => if c' =? c then option_map (fun Lk => (fst Lk, drop_key t (snd Lk))) G else G
  | DeleteGroup c' g' t' =>
      if (c' =? c) && (g' =? g)
      then match G with
           | None => None
           | Some (L, ks) => if t' =? 0 then None
                             else match drop_key t' ks with
                                  | [] => if existsb (fun k => k =? t') ks then None else Some (L, [])
                                  | ks' => Some (L, ks')
                                  end
           end
      else G
  | FetchConsumer c' g' =>
      if (c' =? c) && (g' =? g)
      then match G with Some (L, _) => if expired cf now L then None else G | None => None end
      else G
  | _ => G
  end.

Lemma delete_topic_ginfo st c cl t :
  get st c = Some cl ->
  exists cl', delete_topic st c t = Done (set st c cl') RNone /\
    forall g, ginfo_cl cl' g = option_map (fun Lk => (fst Lk, drop_key t (snd Lk))) (ginfo_cl cl g).
Proof.
  intros Hc. unfold delete_topic. rewrite Hc. eexists. split; [reflexivity|].
  intros g. unfold ginfo_cl. cbn [cl_consumer]. rewrite get_map_vals.
  destruct (get (cl_consumer cl) g) as [grp|]; [|reflexivity]. cbn [option_map g_last g_topics fst snd].
  rewrite keys_remove_eq. reflexivity.
Qed.

Lemma existsb_keys_get {V} (m : amap V) t :
  existsb (fun k => k =? t) (keys m) = match get m t with Some _ => true | None => false end.
Proof.
  unfold keys. induction m as [|[k v] r IH]; cbn; [reflexivity|]. destruct (k =? t); [reflexivity|exact IH].
Qed.

Lemma delete_group_ginfo st c cl g t :
  get st c = Some cl ->
  exists st', delete_group st c g t = Done st' RNone /\
    forall g', ginfo st' c g' =
      if g' =? g
      then match ginfo_cl cl g with
           | None => None
           | Some (L, ks) => if t =? 0 then None
                             else match drop_key t ks with
                                  | [] => if existsb (fun k => k =? t) ks then None else Some (L, [])
                                  | ks' => Some (L, ks')
                                  end
           end
      else ginfo_cl cl g'.
Proof.
  intros Hc. unfold delete_group. rewrite Hc.
  assert (Hrm : forall g', ginfo (set st c (mkCluster (cl_broker cl) (remove (cl_consumer cl) g))) c g' =
                           if g' =? g then None else ginfo_cl cl g').
  { intros g'. rewrite ginfo_set_same. unfold ginfo_cl. cbn [cl_consumer]. destruct (g' =? g) eqn:E.
    - apply Z.eqb_eq in E. subst g'. rewrite get_remove_eq. reflexivity.
    - apply Z.eqb_neq in E. rewrite get_remove_neq by congruence. reflexivity. }
  unfold ginfo_cl at 1. destruct (get (cl_consumer cl) g) as [grp|] eqn:Egr; cbn [option_map].
  - destruct (t =? 0); [eexists; split; [reflexivity|exact Hrm]|].
    rewrite <- keys_remove_eq, existsb_keys_get. destruct (remove (g_topics grp) t) as [|kv rest] eqn:Erm.
    + cbn [keys map]. destruct (get (g_topics grp) t); [eexists; split; [reflexivity|]; exact Hrm|].
      eexists; split; [reflexivity|]. intros g'. rewrite ginfo_set_same. unfold ginfo_cl at 1. cbn [cl_consumer].
      destruct (g' =? g) eqn:E.
      * apply Z.eqb_eq in E. subst g'. rewrite get_set_eq. reflexivity.
      * apply Z.eqb_neq in E. rewrite get_set_neq by congruence. reflexivity.
    + rewrite <- Erm. eexists; split; [reflexivity|]. intros g'. rewrite ginfo_set_same. unfold ginfo_cl at 1. cbn [cl_consumer].
      destruct (g' =? g) eqn:E.
      * apply Z.eqb_eq in E. subst g'. rewrite get_set_eq. cbn [option_map g_last g_topics]. rewrite Erm. reflexivity.
      * apply Z.eqb_neq in E. rewrite get_set_neq by congruence. reflexivity.
  - exists st. split; [reflexivity|]. intros g'. unfold ginfo. rewrite Hc. destruct (g' =? g) eqn:E; [|reflexivity].
    apply Z.eqb_eq in E. subst g'. unfold ginfo_cl. rewrite Egr. reflexivity.
Qed.

Lemma fetch_consumer_ginfo cf now st c g st' rep :
  fetch_consumer cf now st c g = Done st' rep ->
  forall g', ginfo st' c g' =
             if g' =? g then match ginfo st c g with Some (L, _) => if expired cf now L then None else ginfo st c g | None => None end
             else ginfo st c g'.
Proof.
  unfold fetch_consumer, ginfo. destruct (get st c) as [cl|] eqn:Hc.
  2:{ intros H. injection H as <- _. rewrite Hc. intros g'. destruct (g' =? g); reflexivity. }
  unfold ginfo_cl at 2 3. destruct (get (cl_consumer cl) g) as [grp|] eqn:Egr; cbn [option_map].
  2:{ intros H. injection H as <- _. rewrite Hc. intros g'. destruct (g' =? g) eqn:E; [|reflexivity].
      apply Z.eqb_eq in E. subst g'. unfold ginfo_cl. rewrite Egr. reflexivity. }
  destruct (expired cf now (g_last grp)).
  - intros H. injection H as <- _. rewrite get_set_eq. intros g'. unfold ginfo_cl. cbn [cl_consumer]. destruct (g' =? g) eqn:E.
    + apply Z.eqb_eq in E. subst g'. rewrite get_remove_eq. reflexivity.
    + apply Z.eqb_neq in E. rewrite get_remove_neq by congruence. reflexivity.
  - destruct (fetch_topics_lags _ _); [|discriminate]. intros H. injection H as <- _. rewrite Hc. intros g'.
    destruct (g' =? g) eqn:E; [|reflexivity]. apply Z.eqb_eq in E. subst g'. unfold ginfo_cl. rewrite Egr. reflexivity.
Qed.

(* the effects read on the state *)
Definition ceff_st (cf : config) (now : Z) (st : state) (c g t p off order ts : Z) : option bool :=
  match reaches_ring cf now st c g t p ts with
  | Some boff => Some (commit_stored (ring_of cf st c g t p) order)
  | None => None
  end.
Definition oeff_st (cf : config) (st : state) (c g t p : Z) : option bool :=
  match get st c with
  | None => None
  | Some cl => if cf_accept cf g then Some (negb (snd (get_broker_offset cl t p) =? 0)) else None
  end.

Definition req_cluster (r : req) : option Z :=
  match r with
  | SetBrokerOffset c _ _ _ _ | SetConsumerOffset c _ _ _ _ _ _ | SetConsumerOwner c _ _ _ _ _ | ClearConsumerOwners c _
  | DeleteTopic c _ | DeleteGroup c _ _ | FetchConsumers c | FetchTopics c | FetchConsumer c _ | FetchTopic c _
  | FetchConsumersForTopic c _ => Some c
  | FetchClusters => None
  end.

(* a request only ever touches the cluster it names *)
Lemma step_other_cluster cf now st r st' rep c :
  step cf now st r = Done st' rep -> req_cluster r <> Some c -> get st' c = get st c.
Proof.
  assert (Hset : forall c0 cl', Some c0 <> Some c -> get (set st c0 cl') c = get st c).
  { intros c0 cl' H. apply get_set_neq. congruence. }
  destruct r as [c0 t0 p0 cnt off|c0 g0 t0 p0 off order ts|c0 g0 t0 p0 owner client|c0 g0|c0 t0|c0 g0 t0| |c0|c0|c0 g0|c0 t0|c0 t0];
    cbn [step req_cluster]; intros Hstep Hne.
  - unfold add_broker_offset in Hstep. destruct (get st c0) as [cl0|]; [|injection Hstep as <- _; reflexivity].
    destruct (_ || _); [discriminate|]. injection Hstep as <- _. apply Hset; exact Hne.
  - unfold add_consumer_offset in Hstep. destruct (get st c0) as [cl0|]; [|injection Hstep as <- _; reflexivity].
    destruct (too_old cf now ts); [injection Hstep as <- _; reflexivity|].
    destruct (negb (cf_accept cf g0)); [injection Hstep as <- _; reflexivity|].
    destruct (get_broker_offset cl0 t0 p0) as [boff cnt].
    destruct (cnt =? 0); [injection Hstep as <- _; reflexivity|].
    destruct (ring_step _ _ _ _) as [w' app]. injection Hstep as <- _. apply Hset; exact Hne.
  - unfold add_consumer_owner in Hstep. destruct (get st c0) as [cl0|]; [|injection Hstep as <- _; reflexivity].
    destruct (negb (cf_accept cf g0)); [injection Hstep as <- _; reflexivity|].
    destruct (get_broker_offset cl0 t0 p0) as [boff cnt].
    destruct (cnt =? 0); injection Hstep as <- _; apply Hset; exact Hne.
  - unfold clear_consumer_owners in Hstep. destruct (get st c0) as [cl0|]; [|injection Hstep as <- _; reflexivity].
    destruct (negb (cf_accept cf g0)); [injection Hstep as <- _; reflexivity|].
    destruct (get (cl_consumer cl0) g0); injection Hstep as <- _; [apply Hset; exact Hne|reflexivity].
  - unfold delete_topic in Hstep. destruct (get st c0) as [cl0|]; injection Hstep as <- _; [apply Hset; exact Hne|reflexivity].
  - unfold delete_group in Hstep. destruct (get st c0) as [cl0|]; [|injection Hstep as <- _; reflexivity].
    destruct (get (cl_consumer cl0) g0) as [grp|]; [|injection Hstep as <- _; reflexivity].
    destruct (t0 =? 0); [injection Hstep as <- _; apply Hset; exact Hne|].
    destruct (remove (g_topics grp) t0); [destruct (get (g_topics grp) t0)|]; injection Hstep as <- _; apply Hset; exact Hne.
  - injection Hstep as <- _. reflexivity.
  - destruct (get st c0); injection Hstep as <- _; reflexivity.
  - destruct (get st c0); injection Hstep as <- _; reflexivity.
  - unfold fetch_consumer in Hstep. destruct (get st c0) as [cl0|]; [|injection Hstep as <- _; reflexivity].
    destruct (get (cl_consumer cl0) g0) as [grp|]; [|injection Hstep as <- _; reflexivity].
    destruct (expired cf now (g_last grp)); [injection Hstep as <- _; apply Hset; exact Hne|].
    destruct (fetch_topics_lags _ _); [|discriminate]. injection Hstep as <- _. reflexivity.
  - unfold fetch_topic in Hstep. destruct (get st c0) as [cl0|]; [destruct (get (cl_broker cl0) t0)|]; injection Hstep as <- _; reflexivity.
  - unfold fetch_consumers_for_topic in Hstep. destruct (get st c0); injection Hstep as <- _; reflexivity.
Qed.

Theorem ginfo_step cf cls h st reps now r st' rep c g :
  (1 <= cf_intervals cf)%nat -> wf_hist h -> wf_req r ->
  run cf (init_state cls) h = Some (st, reps) ->
  step cf now st r = Done st' rep ->
  ginfo st' c g = ginfo_next cf now c g (ceff_st cf now st c g) (oeff_st cf st c g) r (ginfo st c g).
Proof.
  intros HN Hwf Hr Hrun Hstep. pose proof (run_reaches_hinv _ _ _ _ _ HN Hwf Hrun) as Hinv.
  assert (Hother : req_cluster r <> Some c ->
            ginfo st' c g = ginfo_next cf now c g (ceff_st cf now st c g) (oeff_st cf st c g) r (ginfo st c g)).
  { intros Hne. unfold ginfo at 1. rewrite (step_other_cluster _ _ _ _ _ _ c Hstep Hne). fold (ginfo st c g).
    destruct r; cbn [ginfo_next req_cluster] in *; try reflexivity;
      (destruct (c0 =? c) eqn:E; [apply Z.eqb_eq in E; subst; congruence|reflexivity]). }
  destruct r as [c0 t0 p0 cnt off|c0 g0 t0 p0 off order ts|c0 g0 t0 p0 owner client|c0 g0|c0 t0|c0 g0 t0| |c0|c0|c0 g0|c0 t0|c0 t0];
    try (destruct (Z.eq_dec c0 c) as [->|Hnec]; [|apply Hother; cbn; congruence]);
    cbn [step] in Hstep; cbn [ginfo_next]; rewrite ?Z.eqb_refl; cbn [andb].
  - (* SetBrokerOffset *)
    destruct Hr as [Hp Hoff]. destruct (get st c) as [cl0|] eqn:Hc0;
      [|unfold add_broker_offset in Hstep; rewrite Hc0 in Hstep; injection Hstep as <- _; reflexivity].
    destruct (abo_inv cf st c cl0 t0 p0 cnt off (last_broker h c)
                (fun t' p' => if (t' =? t0) && (p' =? p0) then Some off else last_broker h c t' p')
                (commit_ok h c) HN Hc0 (Hinv c cl0 Hc0) Hp Hoff) as (cl' & Hs & Hcons & _).
    + rewrite !Z.eqb_refl. reflexivity.
    + intros t' p' Hd. destruct (t' =? t0) eqn:E1; [|reflexivity]. destruct (p' =? p0) eqn:E2; [lia|reflexivity].
    + rewrite Hs in Hstep. injection Hstep as <- _.
      rewrite ginfo_set_same. unfold ginfo. rewrite Hc0. unfold ginfo_cl. rewrite Hcons. reflexivity.
  - (* SetConsumerOffset *)
    destruct (get st c) as [cl0|] eqn:Hc0.
    + destruct (aco_inv cf now st c cl0 g0 t0 p0 off order ts (last_broker h c) (fun _ _ _ _ => True) Hc0) as
        [[Hre Hs]|(cl' & boff & w1 & app & Hre & Hs & _ & _ & _ & _ & _ & Hrs & _ & _ & Hgi)].
      * eapply cinv_impl; [reflexivity| |apply Hinv; exact Hc0]. intros; exact I.
      * intros; exact I.
      * rewrite Hs in Hstep. injection Hstep as <- _. destruct (g0 =? g) eqn:Eg; [|reflexivity].
        apply Z.eqb_eq in Eg. subst g0. unfold ceff_st. rewrite Hre. reflexivity.
      * rewrite Hs in Hstep. injection Hstep as <- _. rewrite ginfo_set_same, Hgi. rewrite (Z.eqb_sym g g0).
        destruct (g0 =? g) eqn:Eg; [|unfold ginfo; rewrite Hc0; reflexivity].
        apply Z.eqb_eq in Eg. subst g0. unfold ceff_st. rewrite Hre. unfold ring_of. rewrite Hc0.
        unfold ginfo. rewrite Hc0. reflexivity.
    + unfold add_consumer_offset in Hstep. rewrite Hc0 in Hstep. injection Hstep as <- _.
      destruct (g0 =? g) eqn:Eg; [|reflexivity]. apply Z.eqb_eq in Eg. subst g0.
      unfold ceff_st, reaches_ring. rewrite Hc0. reflexivity.
  - (* SetConsumerOwner *)
    destruct (get st c) as [cl0|] eqn:Hc0.
    + destruct (aown_inv cf st c cl0 g0 t0 p0 owner client _ _ Hc0 (Hinv c cl0 Hc0))
        as [[Hacc Hs]|(cl' & Hacc & Hs & _ & _ & _ & Hgi)]; rewrite Hs in Hstep; injection Hstep as <- _.
      * destruct (g0 =? g) eqn:Eg; [|reflexivity]. apply Z.eqb_eq in Eg. subst g0.
        unfold oeff_st. rewrite Hc0, Hacc. reflexivity.
      * rewrite ginfo_set_same, Hgi. rewrite (Z.eqb_sym g g0).
        destruct (g0 =? g) eqn:Eg; [|unfold ginfo; rewrite Hc0; reflexivity].
        apply Z.eqb_eq in Eg. subst g0. unfold oeff_st. rewrite Hc0, Hacc. unfold ginfo. rewrite Hc0.
        destruct (snd (get_broker_offset cl0 t0 p0) =? 0); reflexivity.
    + unfold add_consumer_owner in Hstep. rewrite Hc0 in Hstep. injection Hstep as <- _.
      destruct (g0 =? g) eqn:Eg; [|reflexivity]. unfold oeff_st. rewrite Hc0. reflexivity.
  - (* ClearConsumerOwners *)
    destruct (get st c) as [cl0|] eqn:Hc0;
      [|unfold clear_consumer_owners in Hstep; rewrite Hc0 in Hstep; injection Hstep as <- _; reflexivity].
    destruct (clear_inv cf st c cl0 g0 _ _ Hc0 (Hinv c cl0 Hc0)) as [Hs|(cl' & Hs & _ & _ & _ & Hgi)];
      rewrite Hs in Hstep; injection Hstep as <- _; [reflexivity|].
    rewrite ginfo_set_same, Hgi. unfold ginfo. rewrite Hc0. reflexivity.
  - (* DeleteTopic *)
    destruct (get st c) as [cl0|] eqn:Hc0.
    + destruct (delete_topic_ginfo st c cl0 t0 Hc0) as (cl' & Hs & Hgi). rewrite Hs in Hstep. injection Hstep as <- _.
      rewrite ginfo_set_same, Hgi. unfold ginfo. rewrite Hc0. reflexivity.
    + unfold delete_topic in Hstep. rewrite Hc0 in Hstep. injection Hstep as <- _. unfold ginfo. rewrite Hc0. reflexivity.
  - (* DeleteGroup *)
    destruct (get st c) as [cl0|] eqn:Hc0.
    + destruct (delete_group_ginfo st c cl0 g0 t0 Hc0) as (st2 & Hs & Hgi). rewrite Hs in Hstep. injection Hstep as <- _.
      rewrite Hgi. rewrite (Z.eqb_sym g g0). unfold ginfo. rewrite Hc0.
      destruct (g0 =? g) eqn:Eg; [|reflexivity]. apply Z.eqb_eq in Eg. subst g0. reflexivity.
    + unfold delete_group in Hstep. rewrite Hc0 in Hstep. injection Hstep as <- _. unfold ginfo. rewrite Hc0.
      destruct (g0 =? g); reflexivity.
  - injection Hstep as <- _. reflexivity.
  - destruct (get st c); injection Hstep as <- _; reflexivity.
  - destruct (get st c); injection Hstep as <- _; reflexivity.
  - (* FetchConsumer *)
    rewrite (fetch_consumer_ginfo cf now st c g0 st' rep Hstep g). rewrite (Z.eqb_sym g g0).
    destruct (g0 =? g) eqn:Eg; [|reflexivity]. apply Z.eqb_eq in Eg. subst g0. reflexivity.
  - unfold fetch_topic in Hstep. destruct (get st c) as [cl0|]; [destruct (get (cl_broker cl0) t0)|];
      injection Hstep as <- _; reflexivity.
  - unfold fetch_consumers_for_topic in Hstep. destruct (get st c); injection Hstep as <- _; reflexivity.
Qed.
