(* Proofs about the storage model (Storage.v): the shared sequential invariant [storage_inv], the refinement
   invariant that links the state to the history ([hinv]), and the lemmas behind property C01.
   Sections:
     0  lists / association maps            (general helper lemmas, exported)
     1  one commit arriving at a ring       (facts about Ring.ring_step proved from Ring.v's definitions alone)
     2  per-cluster invariant and one preservation lemma per handler
     3  histories: run_app, last_broker, hinv, storage never crashes sequentially
     4  C01: current lag, lag at commit, frame *)
From Coq Require Import ZArith List Bool Lia ZifyBool.
From Burrow Require Import Int64 Int64Proofs Eval AMap AMapProofs Ring Storage.
Import ListNotations.
Open Scope Z_scope.

(* ================================================================================================ *)
(* 0. lists and association maps                                                                    *)
(* ================================================================================================ *)

Definition optP {A} (P : A -> Prop) (o : option A) : Prop := match o with Some a => P a | None => True end.

Lemma length_set_nth {A} (l : list A) i x : length (set_nth l i x) = length l.
Proof. revert i; induction l as [|a l IH]; intros [|i]; cbn; auto. Qed.

Lemma nth_error_set_nth_eq {A} (l : list A) i x : (i < length l)%nat -> nth_error (set_nth l i x) i = Some x.
Proof. revert i; induction l as [|a l IH]; intros [|i] H; cbn in *; try lia; auto. apply IH; lia. Qed.

Lemma nth_error_set_nth_neq {A} (l : list A) i j x : i <> j -> nth_error (set_nth l i x) j = nth_error l j.
Proof. revert i j; induction l as [|a l IH]; intros [|i] [|j] H; cbn; auto; try congruence. Qed.

Lemma nth_error_set_nth_inv {A} (l : list A) i j x y :
  nth_error (set_nth l i x) j = Some y -> (j = i /\ y = x) \/ (j <> i /\ nth_error l j = Some y).
Proof.
  intros H. destruct (Nat.eq_dec j i) as [->|Hne].
  - left. split; [reflexivity|].
    assert (Hl : (i < length l)%nat).
    { rewrite <- (length_set_nth l i x). apply nth_error_Some. congruence. }
    rewrite nth_error_set_nth_eq in H by exact Hl. congruence.
  - right. split; [exact Hne|]. rewrite nth_error_set_nth_neq in H by congruence. exact H.
Qed.

Lemma nth_nth_error {A} (l : list A) i d : (i < length l)%nat -> nth_error l i = Some (nth i l d).
Proof. revert i; induction l as [|a l IH]; intros [|i] H; cbn in *; try lia; auto. apply IH; lia. Qed.

Lemma nth_error_app_l {A} (l m : list A) i x : nth_error l i = Some x -> nth_error (l ++ m) i = Some x.
Proof. intros H. rewrite nth_error_app1; [exact H|]. apply nth_error_Some. congruence. Qed.

Lemma nth_error_repeat {A} (x y : A) n i : nth_error (repeat x n) i = Some y -> y = x.
Proof. intros H. apply nth_error_In in H. apply repeat_spec in H. exact H. Qed.

Lemma nth_error_app_repeat {A} (l : list A) x n i y :
  nth_error (l ++ repeat x n) i = Some y -> nth_error l i = Some y \/ y = x.
Proof.
  intros H. destruct (lt_dec i (length l)) as [Hl|Hl].
  - left. rewrite nth_error_app1 in H by exact Hl. exact H.
  - right. rewrite nth_error_app2 in H by lia. eapply nth_error_repeat; exact H.
Qed.

Lemma last_rev_hd {A} (l : list A) d : last (rev l) d = hd d l.
Proof. destruct l as [|a l]; [reflexivity|]. cbn [rev hd]. apply last_last. Qed.

Lemma last_cons_ne {A} (a : A) l d : l <> [] -> last (a :: l) d = last l d.
Proof. destruct l; [congruence|reflexivity]. Qed.

Lemma somes_app {A} (l m : list (option A)) : somes (l ++ m) = somes l ++ somes m.
Proof. unfold somes. apply flat_map_app. Qed.

(* the newest recorded broker offset survives the read-out that drops empty slots *)
Lemma somes_last {A} (r : list (option A)) (b : A) :
  last r None = Some b -> somes r <> [] /\ forall d, last (somes r) d = b.
Proof.
  intros H. destruct r as [|x r] using rev_ind; [discriminate|].
  rewrite last_last in H. subst x. rewrite somes_app. cbn. split.
  - intros E. apply app_eq_nil in E. destruct E; discriminate.
  - intros d. apply last_last.
Qed.

Lemma In_somes {A} (r : list (option A)) (b : A) : In b (somes r) <-> In (Some b) r.
Proof.
  unfold somes. rewrite in_flat_map. split.
  - intros ([y|] & Hy & Hb); cbn in Hb; [|contradiction]. destruct Hb as [->|[]]. exact Hy.
  - intros H. exists (Some b). split; [exact H|left; reflexivity].
Qed.

Lemma NoDup_keys_remove {V} (m : amap V) k : NoDup (keys m) -> NoDup (keys (remove m k)).
Proof.
  unfold keys, remove. induction m as [|[k' v] r IH]; cbn; intros H; [constructor|].
  inversion H as [|? ? Hn Hr]; subst.
  destruct (k' =? k); cbn; [apply IH; exact Hr|].
  constructor; [|apply IH; exact Hr].
  intros Hin. apply Hn. apply in_map_iff in Hin. destruct Hin as (kv & E & Hin).
  apply filter_In in Hin. apply in_map_iff. exists kv. tauto.
Qed.

Lemma NoDup_keys_set {V} (m : amap V) k v : NoDup (keys m) -> NoDup (keys (set m k v)).
Proof.
  intros H. unfold set. cbn. constructor; [|apply NoDup_keys_remove; exact H].
  intros Hin. apply keys_remove in Hin. destruct Hin as [_ Hne]. congruence.
Qed.

Lemma NoDup_keys_map_vals {V W} (f : V -> W) (m : amap V) : NoDup (keys m) -> NoDup (keys (map_vals f m)).
Proof. rewrite keys_map_vals. auto. Qed.

Lemma in_get {V} (m : amap V) k v : NoDup (keys m) -> In (k, v) m -> get m k = Some v.
Proof.
  induction m as [|[k' v'] r IH]; cbn; intros Hnd Hin; [contradiction|].
  inversion Hnd as [|? ? Hn Hr]; subst. destruct Hin as [E|Hin].
  - injection E as -> ->. rewrite Z.eqb_refl. reflexivity.
  - destruct (k' =? k) eqn:E.
    + apply Z.eqb_eq in E. subst k'. exfalso. apply Hn. apply in_map_iff. exists (k, v). auto.
    + apply IH; assumption.
Qed.

Lemma get_in {V} (m : amap V) k v : get m k = Some v -> In (k, v) m.
Proof.
  induction m as [|[k' v'] r IH]; cbn; [discriminate|].
  destruct (k' =? k) eqn:E.
  - apply Z.eqb_eq in E. intros H. injection H as ->. subst. left; reflexivity.
  - intros H. right. apply IH; exact H.
Qed.

(* a property of every bound value survives [set] *)
Lemma get_set_inv {V} (m : amap V) k k' v v' :
  get (set m k v) k' = Some v' -> (k' = k /\ v' = v) \/ (k' <> k /\ get m k' = Some v').
Proof.
  intros H. destruct (Z.eq_dec k k') as [->|Hne].
  - rewrite get_set_eq in H. left. split; congruence.
  - rewrite get_set_neq in H by exact Hne. right. split; congruence.
Qed.

Lemma get_remove_inv {V} (m : amap V) k k' v' :
  get (remove m k) k' = Some v' -> k' <> k /\ get m k' = Some v'.
Proof.
  intros H. destruct (Z.eq_dec k k') as [->|Hne].
  - rewrite get_remove_eq in H. discriminate.
  - rewrite get_remove_neq in H by exact Hne. split; congruence.
Qed.

(* ================================================================================================ *)
(* 1. one commit arriving at a ring (from the definitions of Ring.v; no shape assumption)           *)
(* ================================================================================================ *)

(* [e] is the entry written for commit [c] with lag value [lag] (the timestamp may be the merged one) *)
Definition new_entry (c : commit) (lag : option Z) (e : coff) : Prop :=
  co_offset e = cm_offset c /\ co_order e = cm_order c /\ co_lag e = lag.

(* [r'] is [r] with exactly one slot taken out (overwritten, or pushed out at the oldest end) and the entry
   [e] put in; every other slot is kept, in the same relative order *)
Definition overwrite (r r' : ring) (e : coff) : Prop :=
  exists a b a' x b', r' = a ++ Some e :: b /\ r = a' ++ x :: b' /\ a ++ b = a' ++ b'.

Lemma overwrite_In r r' e s : overwrite r r' e -> In s r' -> s = Some e \/ In s r.
Proof.
  intros (a & b & a' & x & b' & -> & -> & E) H.
  apply in_app_or in H. destruct H as [H|[H|H]]; [| left; congruence |].
  - right. assert (Hi : In s (a ++ b)) by (apply in_or_app; auto).
    rewrite E in Hi. apply in_app_or in Hi. apply in_or_app. cbn. tauto.
  - right. assert (Hi : In s (a ++ b)) by (apply in_or_app; auto).
    rewrite E in Hi. apply in_app_or in Hi. apply in_or_app. cbn. tauto.
Qed.

Lemma overwrite_length r r' e : overwrite r r' e -> length r' = length r.
Proof.
  intros (a & b & a' & x & b' & -> & -> & E).
  apply (f_equal (@length _)) in E. rewrite !app_length in *. cbn. lia.
Qed.

Definition place_ok (r : ring) (p : place) : Prop :=
  match p with
  | PReplace a x b => r = a ++ x :: b
  | PShift a pv b => r = a ++ Some pv :: b
  | PDrop | PAppend => True
  end.

Lemma push_ok y r p : place_ok r p -> place_ok (y :: r) (push y p).
Proof. destruct p; cbn; intros H; try exact I; rewrite H; reflexivity. Qed.

Lemma scan_ok r order : place_ok r (scan r order).
Proof.
  induction r as [|[pv|] below IH]; cbn [scan]; [exact I| |reflexivity].
  destruct (co_order pv <? order); [reflexivity|].
  destruct (co_order pv =? order); [exact I|].
  destruct below as [|y below']; [reflexivity|].
  apply push_ok. exact IH.
Qed.

Lemma find_place_ok r order : place_ok r (find_place r order).
Proof.
  unfold find_place. destruct r as [|[nw|] r']; try exact I.
  destruct (last (Some nw :: r') None) as [ol|].
  - destruct (order <=? co_order ol); [exact I|]. destruct (order <=? co_order nw); [apply scan_ok|exact I].
  - destruct (order <=? co_order nw); [apply scan_ok|exact I].
Qed.

(* scan only answers for a commit that is not newer than the newest *)
Lemma find_place_append r order :
  find_place r order = PAppend ->
  r <> [] /\ (hd None r = None \/ exists nw, hd None r = Some nw /\ co_order nw < order).
Proof.
  unfold find_place. destruct r as [|[nw|] r']; [discriminate| |].
  - intros H. split; [discriminate|]. right. exists nw. split; [reflexivity|].
    assert (Hs : forall o, scan (Some nw :: r') o <> PAppend).
    { intros o. generalize (Some nw :: r'). intros l. induction l as [|[pv|] below IHl]; cbn [scan]; try discriminate.
      destruct (co_order pv <? o); [discriminate|]. destruct (co_order pv =? o); [discriminate|].
      destruct below; [discriminate|]. destruct (scan (o0 :: below) o); cbn; try discriminate. exact IHl. }
    destruct (last (Some nw :: r') None) as [ol|].
    + destruct (order <=? co_order ol); [discriminate|].
      destruct (order <=? co_order nw) eqn:E; [exfalso; eapply Hs; exact H|lia].
    + destruct (order <=? co_order nw) eqn:E; [exfalso; eapply Hs; exact H|lia].
  - intros _. split; [discriminate|]. left; reflexivity.
Qed.

Lemma find_place_not_append r order p :
  find_place r order = p -> p <> PAppend -> p <> PDrop ->
  exists nw, hd None r = Some nw /\ order <= co_order nw.
Proof.
  unfold find_place. destruct r as [|[nw|] r']; [congruence| |congruence].
  intros H Ha Hd. exists nw. split; [reflexivity|].
  destruct (last (Some nw :: r') None) as [ol|].
  - destruct (order <=? co_order ol); [congruence|]. destruct (order <=? co_order nw) eqn:E; [lia|congruence].
  - destruct (order <=? co_order nw) eqn:E; [lia|congruence].
Qed.

Lemma removelast_split {A} (l : list A) d : l <> [] -> l = removelast l ++ [last l d].
Proof. apply app_removelast_last. Qed.

Lemma store_append md r c lag :
  r <> [] ->
  exists e rest a' x b', store md r PAppend c lag = Some e :: rest /\ new_entry c lag e /\
                         r = a' ++ x :: b' /\ rest = a' ++ b'.
Proof.
  intros Hne. cbn [store].
  assert (Hfresh : exists e rest a' x b', Some (mkCoff (cm_offset c) (cm_order c) (cm_ts c) lag) :: removelast r = Some e :: rest /\
             new_entry c lag e /\ r = a' ++ x :: b' /\ rest = a' ++ b').
  { eexists _, (removelast r), (removelast r), (last r None), []. split; [reflexivity|]. split; [repeat split|].
    split; [apply removelast_split; exact Hne|]. rewrite app_nil_r. reflexivity. }
  destruct r as [|[pv|] r']; [congruence| |exact Hfresh].
  cbn [hd tl]. destruct (merges md pv c); [|exact Hfresh].
  eexists _, r', [], (Some pv), r'. split; [reflexivity|]. split; [repeat split|]. split; reflexivity.
Qed.

Lemma store_overwrite md r p c lag :
  place_ok r p -> p <> PDrop -> p <> PAppend ->
  exists e, new_entry c lag e /\ overwrite r (store md r p c lag) e.
Proof.
  intros Hok Hd Ha. destruct p as [| |a x b|a pv b]; try congruence; cbn in Hok; cbn [store].
  - (* PReplace *)
    assert (Hfresh : exists e, new_entry c lag e /\
               overwrite r (a ++ Some (mkCoff (cm_offset c) (cm_order c) (cm_ts c) lag) :: b) e).
    { exists (mkCoff (cm_offset c) (cm_order c) (cm_ts c) lag). split; [repeat split|].
      exists a, b, a, x, b. subst r. auto. }
    destruct b as [|[pv|] b'].
    + destruct r as [|[pv|] r'] eqn:Er; cbn [hd tl]; try exact Hfresh.
      destruct (merges md pv c); [|exact Hfresh].
      exists (mkCoff (cm_offset c) (cm_order c) (co_ts pv) lag). split; [repeat split|].
      exists (@nil (option coff)), r', (@nil (option coff)), (Some pv), r'. auto.
    + destruct (merges md pv c); [|exact Hfresh].
      exists (mkCoff (cm_offset c) (cm_order c) (co_ts pv) lag). split; [repeat split|].
      exists (a ++ [x]), b', (a ++ [x]), (Some pv), b'.
      subst r. rewrite <- !app_assoc. cbn. auto.
    + exact Hfresh.
  - (* PShift *)
    destruct (merges md pv c).
    + exists (mkCoff (cm_offset c) (cm_order c) (co_ts pv) lag). split; [repeat split|].
      exists a, b, a, (Some pv), b. subst r. auto.
    + exists (mkCoff (cm_offset c) (cm_order c) (cm_ts c) lag). split; [repeat split|].
      exists a, (removelast (Some pv :: b)), (a ++ removelast (Some pv :: b)), (last (Some pv :: b) None), (@nil (option coff)).
      split; [reflexivity|]. split.
      * subst r. rewrite <- app_assoc. f_equal. apply removelast_split. discriminate.
      * rewrite app_nil_r. reflexivity.
Qed.

(* Everything C01 needs to know about one arrival.  [app] is the flag "the destination was an append"
   (then, and only then, the caller computed a lag value). *)
Lemma ring_step_cases md r c lag r' app :
  ring_step md r c lag = (r', app) ->
  if app
  then (hd None r = None \/ exists nw, hd None r = Some nw /\ co_order nw < cm_order c) /\
       exists e rest a' x b', r' = Some e :: rest /\ new_entry c (Some lag) e /\ r = a' ++ x :: b' /\ rest = a' ++ b'
  else r' = r \/
       ((exists nw, hd None r = Some nw /\ cm_order c <= co_order nw) /\
        exists e, new_entry c None e /\ overwrite r r' e).
Proof.
  unfold ring_step. destruct (find_place r (cm_order c)) as [| |a x b|a pv b] eqn:Ef; intros H; injection H as <- <-.
  - left; reflexivity.
  - apply find_place_append in Ef. destruct Ef as [Hne Hnew]. split; [exact Hnew|].
    refine (store_append md r c (Some lag) Hne).
  - right. split.
    + eapply find_place_not_append; [exact Ef|discriminate|discriminate].
    + refine (store_overwrite md r (PReplace a x b) c None _ _ _); [|discriminate|discriminate].
      rewrite <- Ef. apply find_place_ok.
  - right. split.
    + eapply find_place_not_append; [exact Ef|discriminate|discriminate].
    + refine (store_overwrite md r (PShift a pv b) c None _ _ _); [|discriminate|discriminate].
      rewrite <- Ef. apply find_place_ok.
Qed.

(* slot-wise consequence: a slot of the new ring is an old slot or the entry just written *)
Lemma ring_step_slots md r c lag r' app s :
  ring_step md r c lag = (r', app) -> In s r' ->
  In s r \/ exists e, s = Some e /\ new_entry c (if app then Some lag else None) e.
Proof.
  intros H Hin. apply ring_step_cases in H. destruct app.
  - destruct H as (_ & e & rest & a' & x & b' & -> & Hn & -> & ->).
    destruct Hin as [<-|Hin]; [right; eauto|].
    left. apply in_app_or in Hin. apply in_or_app. cbn. tauto.
  - destruct H as [->|(_ & e & Hn & Ho)]; [left; exact Hin|].
    destruct (overwrite_In _ _ _ _ Ho Hin) as [->|Hi]; [right; eauto|left; exact Hi].
Qed.

Lemma ring_step_length md r c lag r' app : ring_step md r c lag = (r', app) -> length r' = length r.
Proof.
  intros H. apply ring_step_cases in H. destruct app.
  - destruct H as (_ & e & rest & a' & x & b' & -> & _ & -> & ->). cbn. rewrite !app_length. cbn. lia.
  - destruct H as [->|(_ & e & _ & Ho)]; [reflexivity|]. eapply overwrite_length; exact Ho.
Qed.
