(* Model side of the storage probe: a case is a whole history. *)
open Model
open Vutil

let fmt_off (o : coff option) : string =
  match o with
  | None -> "nil"
  | Some c -> Printf.sprintf "(%s,%s,%s,%s)" (sz c.co_offset) (sz c.co_order) (sz c.co_ts)
                (match c.co_lag with None -> "n" | Some l -> sz l)

let zcmp a b = ZA.compare (zt_of_coqz a) (zt_of_coqz b)

let fmt_strings (l : z list) : string =
  let l = List.sort zcmp l in
  cat (["L"; string_of_int (List.length l)] @ List.map sz l)

let fmt_consumer (l : (z * cpart list) list) : string =
  let l = List.sort (fun (a, _) (b, _) -> zcmp a b) l in
  cat (["K"; string_of_int (List.length l)] @
       List.concat_map (fun (t, parts) ->
         [sz t; string_of_int (List.length parts)] @
         List.concat_map (fun p ->
           [sz p.cp_owner; sz p.cp_client; sz p.cp_lag; string_of_int (List.length p.cp_brokers)] @
           List.map sz p.cp_brokers @
           [string_of_int (List.length p.cp_offsets)] @ List.map fmt_off p.cp_offsets) parts) l)

let fmt_reply (r : reply) : string option =
  match r with
  | RNone -> None
  | RNil -> Some "NIL"
  | RStrings l -> Some (fmt_strings l)
  | RInts l -> Some (cat (["I"; string_of_int (List.length l)] @ List.map sz l))
  | RConsumer l -> Some (fmt_consumer l)

let run (line : string) : string =
  let t = toks_of_line line in
  (match next t with "hist" -> () | k -> failwith ("drv_storage: unknown case kind " ^ k));
  let intervals = next_int t in
  let expire = next_z t in
  let mindist = next_z t in
  let clusters = next_list t next_z in
  let _mode = next t in
  let rej = next_list t next_int in
  let accept (g : z) : bool = not (List.mem (iz g) rej) in
  let cf = { cf_intervals = nat_of_int intervals; cf_expire = expire; cf_min_distance = mindist; cf_accept = accept } in
  let nops = next_int t in
  let st = ref (init_state clusters) in
  let out = ref [] in
  let crashed = ref false in
  let i = ref 0 in
  while !i < nops && not !crashed do
    incr i;
    let op = next t in
    let now = next_z t in
    let z () = next_z t in
    let r =
      match op with
      | "B" -> let c = z () in let tp = z () in let p = z () in let cnt = z () in let off = z () in SetBrokerOffset (c, tp, p, cnt, off)
      | "C" -> let c = z () in let g = z () in let tp = z () in let p = z () in let off = z () in let order = z () in let ts = z () in
               SetConsumerOffset (c, g, tp, p, off, order, ts)
      | "O" -> let c = z () in let g = z () in let tp = z () in let p = z () in let o = z () in let cl = z () in SetConsumerOwner (c, g, tp, p, o, cl)
      | "X" -> let c = z () in let g = z () in ClearConsumerOwners (c, g)
      | "DT" -> let c = z () in let tp = z () in DeleteTopic (c, tp)
      | "DG" -> let c = z () in let g = z () in let tp = z () in DeleteGroup (c, g, tp)
      | "FC" -> FetchClusters
      | "FG" -> FetchConsumers (z ())
      | "FT" -> FetchTopics (z ())
      | "FX" -> let c = z () in let g = z () in FetchConsumer (c, g)
      | "FO" -> let c = z () in let tp = z () in FetchTopic (c, tp)
      | "FU" -> let c = z () in let tp = z () in FetchConsumersForTopic (c, tp)
      | k -> failwith ("drv_storage: unknown op " ^ k) in
    match step cf now !st r with
    | Crashed -> crashed := true; out := "CRASH" :: !out
    | Done (st', rep) ->
        st := st';
        (match fmt_reply rep with Some s -> out := s :: !out | None -> ())
  done;
  String.concat " | " (List.rev !out)
