(* Model side of the notifier probe: same case lines, same output lines.

   case line:
     hist|hist0 T0
       NM { thr|d  send_interval|d  once  close  accept_group  allow_rx  deny_rx }*NM
       NN { name { a_set a_match d_set d_match (one 4-char token) }*NM }*NN
       NP { cluster name_index }*NP
       NS { dt_ns pair_index status }*NS
   (hist = current code, hist0 = behaviour before the F3 fix; `d` = option left unset, i.e. Configure's default)

   output line:
     step | step | ... || group ; group ; ...
     step  = "-" or the calls of that response sorted as strings, joined by ","
     call  = m<module>:c<cluster>:g<name_index>:<status>:<id|->:<start|->:<stateGood>
     group = <id|->:<start|->:<LastNotify m1>/<LastNotify m2>/...          (state after the last step) *)
open Model
open Vutil

let rep (n : int) (f : unit -> 'a) : 'a list =
  let rec go i acc = if i = 0 then List.rev acc else let x = f () in go (i - 1) (x :: acc) in
  go n []

let flag t : bool = match next t with "1" -> true | "0" -> false | s -> failwith ("drv_notifier: bad flag " ^ s)

let opt_z (o : z option) : string = match o with None -> "-" | Some x -> sz x

let fmt_call (c : ncall) : string =
  String.concat ":" [ "m" ^ sz c.nc_module; "c" ^ sz c.nc_cluster; "g" ^ sz c.nc_group; sz c.nc_status;
                      opt_z c.nc_id; opt_z c.nc_start; (if c.nc_good then "1" else "0") ]

let hist (fixed : bool) t : string =
  let t0 = next_z t in
  let nm = next_int t in
  let raw = rep nm (fun () ->
    let thr = (match next t with "d" -> zi 2 | s -> zs s) in
    let iv = (match next t with "d" -> zi 60 | s -> zs s) in
    let once = flag t in let close = flag t in let accg = flag t in
    let _allow = next t in let _deny = next t in
    (thr, iv, once, close, accg)) in
  let nn = next_int t in
  let table = Array.of_list (rep nn (fun () ->
    let _name = next t in
    Array.of_list (rep nm (fun () ->
      let s = next t in
      if String.length s <> 4 then failwith "drv_notifier: bad rx4";
      { rx_allow_set = (s.[0] = '1'); rx_allow_match = (s.[1] = '1'); rx_deny_set = (s.[2] = '1'); rx_deny_match = (s.[3] = '1') })))) in
  let unset = { rx_allow_set = false; rx_allow_match = false; rx_deny_set = false; rx_deny_match = false } in
  let mods = List.mapi (fun i (thr, iv, once, close, accg) ->
    let lists (g : z) : rx4 =
      let gi = iz g in if gi >= 0 && gi < nn then table.(gi).(i) else unset in
    mk_mod (zi (i + 1)) thr iv once close accg lists) raw in
  let np = next_int t in
  let pairs = Array.of_list (rep np (fun () -> let c = next_z t in let g = next_z t in (c, g))) in
  let ns = next_int t in
  let clock = ref (zt_of_coqz t0) in
  let h = rep ns (fun () ->
    let dt = ZA.of_string (next t) in
    let p = next_int t in
    let status = next_z t in
    clock := ZA.add !clock dt;
    let (c, g) = pairs.(p) in
    (coqz_of_zt !clock, { nr_cluster = c; nr_group = g; nr_status = status })) in
  let (outs, st) = run_gen fixed mods c_init h in
  let step cs = if cs = [] then "-" else String.concat "," (List.sort compare (List.map fmt_call cs)) in
  let grp (c, g) =
    let gs = group_of st c g in
    String.concat ":" [ opt_z gs.g_id; opt_z gs.g_start;
                        String.concat "/" (List.mapi (fun i _ -> opt_z (gs.g_last (zi (i + 1)))) raw) ] in
  String.concat " | " (List.map step outs) ^ " || " ^ String.concat " ; " (List.map grp (Array.to_list pairs))

let run (line : string) : string =
  let t = toks_of_line line in
  match next t with
  | "hist" -> hist true t
  | "hist0" -> hist false t
  | k -> failwith ("drv_notifier: unknown case kind " ^ k)
