(* Model side of the notifier probe: same case lines, same output lines.

   case line:
     hist|hist0 T0
       NM { thr|d  send_interval|d  once  close  accept_group  allow_rx  deny_rx }*NM
       NN { name { a_set a_match d_set d_match (one 4-char token) }*NM }*NN
       NP { cluster name_index }*NP
       NS { step }*NS
     step = r dt_ns pair_index status                       an evaluator response               -> HResponse
          | g dt_ns cluster n name_index*n                  processConsumerList(cluster, list)  -> HRefresh
            (n = -1: the reply channel is closed without a value, which the code reads as an empty list)
          | c dt_ns n { cluster m name_index*m }*n          a whole refresh cycle: sendClusterRequest, the cluster list,
                                                            then one group list per (distinct) cluster
                                                            -> HClusters; HRefresh for each distinct cluster (first entry wins)
          | b dt_ns pair_index status g cluster n name_index*n   a response whose first Notify call blocks while a group list
          | b dt_ns pair_index status c n { cluster m name_index*m }*n   / a refresh cycle arrives: the refresh waits for the write
                                                            lock -> HResponse, then the refresh events
          | o dt_ns pair_index status                       like r, but the first Notify call is slow and the next step (an r step
                                                            for the same pair, dt 0) is delivered meanwhile -> HResponse
          | s dt_ns n cluster*n                             a refresh cycle whose storage requests time out (nobody takes
                                                            them off the storage channel within a second): n = -1 - the
                                                            cluster-list request, nothing happens -> no event;
                                                            n >= 0 - the cluster list is answered, every group-list
                                                            request times out -> HClusters alone
   (hist = current code, hist0 = behaviour before the F3 fix; `d` = option left unset, i.e. Configure's default)

   output line:
     step | step | ... || K:<cluster,cluster,..|-> ; record ; record ; ...
     step   = "-" or the calls of that step sorted as strings, joined by ","
     call   = m<module>:c<cluster>:g<name_index>:<status>:<id|->:<start|->:<stateGood>
     record = c<cluster>/g<name_index>=<id|->:<start|->:<LastNotify m1>/<LastNotify m2>/...
              (every record that exists after the last step, by cluster, then name index; K: the cluster entries) *)
open Model
open Vutil

let rep (n : int) (f : unit -> 'a) : 'a list =
  let rec go i acc = if i <= 0 then List.rev acc else let x = f () in go (i - 1) (x :: acc) in
  go n []

let flag t : bool = match next t with "1" -> true | "0" -> false | s -> failwith ("drv_notifier: bad flag " ^ s)

let opt_z (o : z option) : string = match o with None -> "-" | Some x -> sz x

let fmt_call (c : ncall) : string =
  String.concat ":" [ "m" ^ sz c.nc_module; "c" ^ sz c.nc_cluster; "g" ^ sz c.nc_group; sz c.nc_status;
                      opt_z c.nc_id; opt_z c.nc_start; (if c.nc_good then "1" else "0") ]

let hist (fixed : bool) t : string =
  let t0 = next_z t in
  let nm = next_int t in
  let raw = rep nm (fun () ->
    let thr = (match next t with "d" -> zi 2 | s -> zs s) in
    let iv = (match next t with "d" -> zi 60 | s -> zs s) in
    let once = flag t in let close = flag t in let accg = flag t in
    let _allow = next t in let _deny = next t in
    (thr, iv, once, close, accg)) in
  let nn = next_int t in
  let table = Array.of_list (rep nn (fun () ->
    let _name = next t in
    Array.of_list (rep nm (fun () ->
      let s = next t in
      if String.length s <> 4 then failwith "drv_notifier: bad rx4";
      { rx_allow_set = (s.[0] = '1'); rx_allow_match = (s.[1] = '1'); rx_deny_set = (s.[2] = '1'); rx_deny_match = (s.[3] = '1') })))) in
  let unset = { rx_allow_set = false; rx_allow_match = false; rx_deny_set = false; rx_deny_match = false } in
  let mods = List.mapi (fun i (thr, iv, once, close, accg) ->
    let lists (g : z) : rx4 =
      let gi = iz g in if gi >= 0 && gi < nn then table.(gi).(i) else unset in
    mk_mod (zi (i + 1)) thr iv once close accg lists) raw in
  let np = next_int t in
  let pairs = Array.of_list (rep np (fun () -> let c = next_z t in let g = next_z t in (c, g))) in
  let universe = ref (List.map (fun (c, _) -> iz c) (Array.to_list pairs)) in
  let see (c : z) = universe := iz c :: !universe in
  let ns = next_int t in
  let clock = ref (zt_of_coqz t0) in
  let tick () = clock := ZA.add !clock (ZA.of_string (next t)); coqz_of_zt !clock in
  let group_list () : z list =
    let n = next_int t in rep n (fun () -> next_z t) in
  let cycle now : nevent list =
    let n = next_int t in
    let entries = rep n (fun () -> let c = next_z t in see c; (c, group_list ())) in
    let rec dedup seen = function
      | [] -> []
      | (c, gs) :: r -> if List.mem (iz c) seen then dedup seen r else (c, gs) :: dedup (iz c :: seen) r in
    HClusters (now, List.map fst entries) :: List.map (fun (c, gs) -> HRefresh (now, c, gs)) (dedup [] entries) in
  (* one case-line step = one or more model events; the calls of the step are those of its events *)
  let steps : nevent list list = rep ns (fun () ->
    match next t with
    | "r" | "o" ->
        (* o: the next step (a response for the same group) arrives while this one is being handed to the modules; the
           hypothesis of the tie is that the two are handled one after the other *)
        let now = tick () in
        let p = next_int t in
        let status = next_z t in
        let (c, g) = pairs.(p) in
        [ ev_response now c g status ]
    | "g" ->
        let now = tick () in
        let c = next_z t in see c;
        [ HRefresh (now, c, group_list ()) ]
    | "c" ->
        let now = tick () in
        cycle now
    | "b" ->
        (* a response whose first Notify call is slow, with a refresh arriving meanwhile: the refresh waits for the write
           lock, i.e. takes effect after the response *)
        let now = tick () in
        let p = next_int t in
        let status = next_z t in
        let (c, g) = pairs.(p) in
        let refresh =
          (match next t with
           | "g" -> let c = next_z t in see c; [ HRefresh (now, c, group_list ()) ]
           | "c" -> cycle now
           | k -> failwith ("drv_notifier: unknown refresh kind in b step " ^ k)) in
        ev_response now c g status :: refresh
    | "s" ->
        let now = tick () in
        let n = next_int t in
        if n < 0 then []
        else begin
          let cs = rep n (fun () -> let c = next_z t in see c; c) in
          [ HClusters (now, cs) ]
        end
    | k -> failwith ("drv_notifier: unknown step kind " ^ k)) in
  let st = ref c_init in
  let outs = List.map (fun evs ->
    List.concat (List.map (fun e ->
      let (st', cs) = on_event_gen fixed mods !st e in
      st := st'; cs) evs)) steps in
  let step cs = if cs = [] then "-" else String.concat "," (List.sort compare (List.map fmt_call cs)) in
  let clusters = List.sort_uniq compare !universe in
  let known = List.filter (fun c -> !st.c_known (zi c)) clusters in
  let recs = List.concat (List.map (fun c ->
    List.concat (List.init nn (fun g ->
      if has_record !st (zi c) (zi g) then begin
        let gs = group_of !st (zi c) (zi g) in
        [ Printf.sprintf "c%d/g%d=%s" c g
            (String.concat ":" [ opt_z gs.g_id; opt_z gs.g_start;
                                 String.concat "/" (List.mapi (fun i _ -> opt_z (gs.g_last (zi (i + 1)))) raw) ]) ]
      end else []))) clusters) in
  let k = "K:" ^ (if known = [] then "-" else String.concat "," (List.map string_of_int known)) in
  String.concat " | " (List.map step outs) ^ " || " ^ String.concat " ; " (k :: recs)

(* cfg set|toml NM { class allow deny send_close }*NM NN { name { rx4 }*NM }*NN
   What Coordinator.Configure must build: a module of the named class under the configured name whose lists have the outcome
   the case line states (computed from the pattern texts), AcceptConsumerGroup true (all three real classes), and a result
   for the group is handed to the module exactly when lists_accept says so. *)
let config t : string =
  let _mode = next t in
  let nm = next_int t in
  let classes = Array.of_list (rep nm (fun () ->
    let cl = next t in let _a = next t in let _d = next t in let _c = next t in cl)) in
  let nn = next_int t in
  let rows = rep nn (fun () -> let _name = next t in Array.of_list (rep nm (fun () -> next t))) in
  String.concat " ; " (List.init nm (fun i ->
    Printf.sprintf "m%d:%s:m%d" (i + 1) classes.(i) (i + 1) ^
    String.concat "" (List.mapi (fun g row ->
      let s = row.(i) in
      if String.length s <> 4 then failwith "drv_notifier: bad rx4";
      let x = { rx_allow_set = (s.[0] = '1'); rx_allow_match = (s.[1] = '1'); rx_deny_set = (s.[2] = '1'); rx_deny_match = (s.[3] = '1') } in
      Printf.sprintf " g%d=%s/1/%d" g s (if lists_accept x then 1 else 0)) rows)))

let run (line : string) : string =
  let t = toks_of_line line in
  match next t with
  | "cfg" -> config t
  | "hist" -> hist true t
  | "hist0" -> hist false t
  | k -> failwith ("drv_notifier: unknown case kind " ^ k)
