(* Model side of the E2E probe (C17): a case is a whole history over the composed system
   storage + evaluator + gauge registry; read phases print the registry and every JSON view. *)
open Model
open Vutil

let zcmp a b = ZA.compare (zt_of_coqz a) (zt_of_coqz b)

let fmt_ids (l : z list) : string =
  let l = List.sort zcmp l in
  cat (["L"; string_of_int (List.length l)] @ List.map sz l)

let fmt_off (o : coff option) : string =
  match o with
  | None -> "nil"
  | Some c -> Printf.sprintf "(%s,%s,%s)" (sz c.co_offset) (sz c.co_ts)
                (match c.co_lag with None -> "n" | Some l -> sz l)

let fmt_list_reply (r : reply) : string =
  match r with
  | RStrings l -> fmt_ids l
  | RNil -> "NIL"
  | _ -> "BADREPLY"

let fmt_consumer (r : reply) : string =
  match r with
  | RNil -> "NIL"
  | RConsumer l ->
      let l = List.sort (fun (a, _) (b, _) -> zcmp a b) l in
      cat (["K"; string_of_int (List.length l)] @
           List.concat_map (fun (t, parts) ->
             [sz t; string_of_int (List.length parts)] @
             List.concat_map (fun p ->
               [sz p.cp_owner; sz p.cp_client; sz p.cp_lag; string_of_int (List.length p.cp_offsets)] @
               List.map fmt_off p.cp_offsets) parts) l)
  | _ -> "BADREPLY"

let fmt_status (o : gstatus option) : string =
  match o with
  | None -> "S 404 0 1065353216 0 0 n 0"
  | Some g ->
      let parts = List.stable_sort (fun a b ->
        let c = zcmp a.ps_topic b.ps_topic in if c <> 0 then c else zcmp a.ps_partition b.ps_partition) g.gs_partitions in
      cat (["S"; "200"; sz (status_num g.gs_status); sz (f32_bits g.gs_complete); sz g.gs_total_partitions; sz g.gs_totallag;
            (match g.gs_maxlag with None -> "n" | Some m -> sz m.ps_lag); string_of_int (List.length parts)] @
           List.concat_map (fun p ->
             [sz p.ps_topic; sz p.ps_partition; sz p.ps_owner; sz p.ps_client; sz (status_num p.ps_status);
              fmt_off p.ps_start; fmt_off p.ps_end; sz p.ps_lag; sz (f32_bits p.ps_complete)]) parts)

let fmt_key (k : key) : string =
  match k with
  | KGroup (GTotalLag, c, g) -> Printf.sprintf "TL:%s:%s:-:-" (sz c) (sz g)
  | KGroup (GStatus, c, g) -> Printf.sprintf "ST:%s:%s:-:-" (sz c) (sz g)
  | KPart (f, c, g, t, p) ->
      Printf.sprintf "%s:%s:%s:%s:%s" (match f with PLag -> "PL" | POffset -> "PO" | PStatus -> "PS") (sz c) (sz g) (sz t) (sz p)
  | KTopic (c, t, p) -> Printf.sprintf "TO:%s:-:%s:%s" (sz c) (sz t) (sz p)

let fmt_registry (clusters : z list) (r : (key * z) list) : string =
  let mine k = let c = (match k with KGroup (_, c, _) -> c | KPart (_, c, _, _, _) -> c | KTopic (c, _, _) -> c) in
    List.exists (fun x -> zcmp x c = 0) clusters in
  let l = List.filter_map (fun (k, v) -> if mine k then Some (fmt_key k ^ "=" ^ sz v) else None) r in
  let l = List.sort compare l in
  cat (["M"; string_of_int (List.length l)] @ l)

exception Crashed_model of string

(* case kinds: sys = the tree as it is (evaluator cache + pruning scrape); sys1 = before cc5e0f6 (cache, no pruning);
   sys0 = before 8eaa8f9 / ff5734c / f85cddf as well (kept for the old witnesses; reads are modelled without the cache) *)
let run (line : string) : string =
  let t = toks_of_line line in
  let kind = next t in
  let v0 = (match kind with "sys" | "sys1" -> false | "sys0" -> true | k -> failwith ("drv_metrics: unknown case kind " ^ k)) in
  let v1 = (kind = "sys1") in
  let intervals = next_int t in
  let expire = next_z t in
  let mindist = next_z t in
  let mincomplete = f32_of_bits (next_z t) in
  let allowed = next_z t in
  let clusters = next_list t next_z in
  let ngroups = next_int t in
  let ntopics = next_int t in
  let cf = { cf_intervals = nat_of_int intervals; cf_expire = expire; cf_min_distance = mindist; cf_accept = (fun _ -> true) } in
  let sc = { sc_st = cf; sc_minimum = mincomplete; sc_allowed = allowed } in
  let storage_f = if v0 then sys_storage_v0 else sys_storage in
  let del_topic = if v0 then delete_topic_metrics_v0 else delete_topic_metrics in
  let sy = ref (init_sys clusters) in           (* storage + registry *)
  let ca = ref [] in                            (* evaluator cache *)
  let lcache = ref (zi 3600000) in              (* expire-cache in ms *)
  let rt = ref Z0 in                            (* logical real time in ms: only sleeps advance it *)
  let zadd a b = coqz_of_zt (ZA.add (zt_of_coqz a) (zt_of_coqz b)) in
  let out = ref [] in
  let nops = next_int t in
  let storage now r : reply =
    match storage_f sc now !sy r with
    | None -> raise (Crashed_model "storage")
    | Some (sy', rep) -> sy := sy'; rep in
  let status now c g show_all : gstatus option =
    if v0 then begin
      match storage now (FetchConsumer (c, g)) with
      | RConsumer l -> (match eval_group l mincomplete allowed now with
                        | Crash -> raise (Crashed_model "evaluator")
                        | Ok gs -> Some (if show_all then gs else filter_view gs))
      | _ -> None
    end else
      match cjson_status sc !lcache !rt now { cs_sys = !sy; cs_cache = !ca } c g show_all with
      | None -> raise (Crashed_model "evaluator")
      | Some (cs', o) -> sy := cs'.cs_sys; ca := cs'.cs_cache; o in
  let do_scrape now : string =
    if v0 then
      (match scrape_v0 sc now !sy with
       | None -> "M PANIC"
       | Some sy' -> sy := sy'; fmt_registry clusters sy'.s_reg)
    else
      match (if v1 then cscrape_v1 else cscrape) sc !lcache !rt now { cs_sys = !sy; cs_cache = !ca } with
      | None -> "M PANIC"
      | Some cs' -> sy := cs'.cs_sys; ca := cs'.cs_cache; fmt_registry clusters cs'.cs_sys.s_reg in
  let read_json now : string list =
    let acc = ref [] in
    let add s = acc := s :: !acc in
    add ("CL " ^ fmt_list_reply (storage now FetchClusters));
    List.iter (fun c ->
      let cs = sz c in
      add ("TL " ^ cs ^ " " ^ fmt_list_reply (storage now (FetchTopics c)));
      for ti = 1 to ntopics do
        let tz = zi ti in
        add (Printf.sprintf "TD %s %d %s" cs ti
               (match storage now (FetchTopic (c, tz)) with
                | RInts l -> cat (["I"; string_of_int (List.length l)] @ List.map sz l)
                | RNil -> "NIL" | _ -> "BADREPLY"));
        add (Printf.sprintf "TC %s %d %s" cs ti (fmt_list_reply (storage now (FetchConsumersForTopic (c, tz)))))
      done;
      add ("GL " ^ cs ^ " " ^ fmt_list_reply (storage now (FetchConsumers c)));
      for gi = 1 to ngroups do
        let gz = zi gi in
        add (Printf.sprintf "GD %s %d %s" cs gi (fmt_consumer (storage now (FetchConsumer (c, gz)))));
        add (Printf.sprintf "GS %s %d %s" cs gi (fmt_status (status now c gz false)));
        add (Printf.sprintf "GA %s %d %s" cs gi (fmt_status (status now c gz true)))
      done) clusters;
    List.rev !acc in
  (try
    for _ = 1 to nops do
      let op = next t in
      let now = next_z t in
      let z () = next_z t in
      match op with
      | "B" -> let c = z () in let tp = z () in let p = z () in let cnt = z () in let off = z () in
               ignore (storage now (SetBrokerOffset (c, tp, p, cnt, off)))
      | "C" -> let c = z () in let g = z () in let tp = z () in let p = z () in let off = z () in let order = z () in let ts = z () in
               ignore (storage now (SetConsumerOffset (c, g, tp, p, off, order, ts)))
      | "O" -> let c = z () in let g = z () in let tp = z () in let p = z () in let o = z () in let cl = z () in
               ignore (storage now (SetConsumerOwner (c, g, tp, p, o, cl)))
      | "X" -> let c = z () in let g = z () in ignore (storage now (ClearConsumerOwners (c, g)))
      | "DT" -> let c = z () in let tp = z () in
                ignore (storage now (DeleteTopic (c, tp)));
                sy := { s_st = !sy.s_st; s_reg = del_topic c tp !sy.s_reg }
      | "GG" -> let c = z () in let g = z () in
                ignore (storage now (DeleteGroup (c, g, Z0)));
                sy := { s_st = !sy.s_st; s_reg = delete_consumer_metrics c g !sy.s_reg }
      | "DG" -> let c = z () in let g = z () in let tp = z () in ignore (storage now (DeleteGroup (c, g, tp)))
      | "R" | "RW" -> if op = "R" then ca := [];
               let m = do_scrape now in let js = read_json now in
               out := (String.concat " ; " (m :: js)) :: !out
      | "RJ" | "RJW" -> if op = "RJ" then ca := [];
                let js = read_json now in let m = do_scrape now in
                out := (String.concat " ; " (m :: js)) :: !out
      | "XC" -> let secs = z () in lcache := coqz_of_zt (ZA.mul (zt_of_coqz secs) (ZA.of_int 1000)); ca := []
      | "SL" -> let ms = z () in rt := zadd !rt ms
      | k -> failwith ("drv_metrics: unknown op " ^ k)
    done
  with Crashed_model w -> out := ("MODEL-CRASH " ^ w) :: !out);
  String.concat " | " (List.rev !out)
