(* Model side of the evaluator probe: same case lines, same output lines. *)
open Model
open Vutil

let read_offsets t : coff option list =
  next_list t (fun t ->
    let present = next_int t in
    let off = next_z t in let order = next_z t in let ts = next_z t in
    let haslag = next_int t in let lag = next_z t in
    if present = 1 then
      Some { co_offset = off; co_order = order; co_ts = ts; co_lag = (if haslag = 1 then Some lag else None) }
    else None)

let read_brokers t : z list = next_list t next_z

let fmt_off (o : coff option) : string =
  match o with
  | None -> "nil"
  | Some c -> Printf.sprintf "(%s,%s,%s,%s)" (sz c.co_offset) (sz c.co_order) (sz c.co_ts)
                (match c.co_lag with None -> "n" | Some l -> sz l)

let fmt_part (p : pstatus) : string =
  cat [ sz p.ps_topic; sz p.ps_partition; sz p.ps_owner; sz p.ps_client; sz (status_num p.ps_status);
        fmt_off p.ps_start; fmt_off p.ps_end; sz p.ps_lag; sz (f32_bits p.ps_complete) ]

let fmt_group (g : gstatus) : string =
  cat ([ "G"; sz (status_num g.gs_status); sz (f32_bits g.gs_complete); sz g.gs_total_partitions; sz g.gs_totallag; "M";
         (match g.gs_maxlag with None -> "-" | Some p -> fmt_part p);
         "P"; string_of_int (List.length g.gs_partitions) ] @ List.map fmt_part g.gs_partitions)

let calc t : string =
  let curlag = next_z t in let now = next_z t in let allowed = next_z t in
  let brokers = read_brokers t in
  let offs = read_offsets t in
  match calc_status offs brokers curlag now allowed with
  | Ok s -> "S " ^ sz (status_num s)
  | Crash -> "CRASH"

let group ?(decimal = false) t : string =
  let minimum = f32_of_bits (next_z t) in
  (* "groupd": the probe configures minimum-complete from the DECIMAL text that follows (through viper and Configure's
     float32(GetFloat64) conversion); the model is given the float32 bits the generator computed for that decimal *)
  if decimal then ignore (next t);
  let allowed = next_z t in let now = next_z t in
  let topics = next_list t (fun t ->
    let topic = next_z t in
    let parts = next_list t (fun t ->
      let owner = next_z t in let client = next_z t in let curlag = next_z t in
      let brokers = read_brokers t in
      let offs = read_offsets t in
      { cp_offsets = offs; cp_brokers = brokers; cp_owner = owner; cp_client = client; cp_lag = curlag }) in
    (topic, parts)) in
  match eval_group topics minimum allowed now with
  | Crash -> "CRASH"
  | Ok g -> fmt_group g ^ " || " ^ fmt_group (filter_view g)

let run (line : string) : string =
  let t = toks_of_line line in
  match next t with
  | "calc" -> calc t
  | "group" -> group t
  | "groupd" -> group ~decimal:true t
  | k -> failwith ("drv_eval: unknown case kind " ^ k)
