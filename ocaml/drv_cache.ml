(* Model side of the cache probe (C05).
   Input line:  M <slack_us> <guard_us> scn <scenario tokens> OBS <observation tokens of the probe>
   Output line: ORACLE <ok | FAIL i:code ...> REPLAY <- | R i c g n body.. ... LK n (t c g).. FLAGS ..>

   ORACLE: the extracted Cache.check_obs (the property's oracle) on the implementation's observations.
   REPLAY (scenarios without concurrent bursts): the extracted Cache.step run along the sequential schedule --
   each request alone up to its reply, then a background refresh it started -- with the observed request,
   storage-fetch and reply times as the clock of the steps; prints the model's replies and storage fetches. *)
open Model
open Vutil

let eval_clock = zs "1600000000"

(* ---- names ---- *)
let unhex (s : string) : z list =
  if s = "-" then [] else
    List.init (String.length s / 2) (fun i -> zi (int_of_string ("0x" ^ String.sub s (2 * i) 2)))
let hex (l : z list) : string =
  if l = [] then "-" else String.concat "" (List.map (fun b -> Printf.sprintf "%02x" (iz b)) l)

(* ---- storage contents (evalgen partition format) ---- *)
let read_offsets t : coff option list =
  next_list t (fun t ->
    let present = next_int t in
    let off = next_z t in let order = next_z t in let ts = next_z t in
    let haslag = next_int t in let lag = next_z t in
    if present = 1 then
      Some { co_offset = off; co_order = order; co_ts = ts; co_lag = (if haslag = 1 then Some lag else None) }
    else None)

let read_content t : cpart list =
  next_list t (fun t ->
    let owner = next_z t in let client = next_z t in let curlag = next_z t in
    let brokers = next_list t next_z in
    let offs = read_offsets t in
    { cp_offsets = offs; cp_brokers = brokers; cp_owner = owner; cp_client = client; cp_lag = curlag })

(* the storage answer for a content, stamped with the fetch time (client id of every partition) *)
type data = (z * cpart list) list
let build (parts : cpart list) (stamp : z) : data =
  if parts = [] then [] else [ (zi 1, List.map (fun p -> { p with cp_client = stamp }) parts) ]

(* ---- values: evaluated by the model, or parsed from the implementation's reply ---- *)
type wv = Computed of gstatus | Parsed of string

let fmt_off (o : coff option) : string =
  match o with
  | None -> "nil"
  | Some c -> Printf.sprintf "(%s,%s,%s,%s)" (sz c.co_offset) (sz c.co_order) (sz c.co_ts)
                (match c.co_lag with None -> "n" | Some l -> sz l)
let fmt_part (p : pstatus) : string =
  cat [ sz p.ps_topic; sz p.ps_partition; sz p.ps_owner; sz p.ps_client; sz (status_num p.ps_status);
        fmt_off p.ps_start; fmt_off p.ps_end; sz p.ps_lag; sz (f32_bits p.ps_complete) ]
let fmt_group (g : gstatus) : string =
  cat ([ "G"; sz (status_num g.gs_status); sz (f32_bits g.gs_complete); sz g.gs_total_partitions; sz g.gs_totallag; "M";
         (match g.gs_maxlag with None -> "-" | Some p -> fmt_part p);
         "P"; string_of_int (List.length g.gs_partitions) ] @ List.map fmt_part g.gs_partitions)
let fmt_wv = function Computed g -> fmt_group g | Parsed s -> s
let notfound_body = "G 0 1065353216 0 0 M - P 0"
let fmt_body (v : wv option) : string = match v with None -> notfound_body | Some w -> fmt_wv w
let ntoks s = List.length (List.filter (fun x -> x <> "") (String.split_on_char ' ' s))

let evalf (_ : z) (d : data) : wv =
  match eval_group d (f32_of_bits (zi 0)) (zi 0) eval_clock with
  | Ok g -> Computed g
  | Crash -> failwith "drv_cache: evaluation crashed on generated content"
let filt = function Computed g -> Computed (filter_view g) | Parsed s -> Parsed s
let wv_eqb a b = fmt_wv a = fmt_wv b

(* ---- scenario + observation ---- *)
type ev =
  | U of z * int * int * int
  | Lk of z * z list * z list * int
  | Q of int * z * int * int * bool
  | R of int * z * z list * z list * string
  | Stall

let expect t s = let g = next t in if g <> s then failwith ("drv_cache: expected " ^ s ^ " got " ^ g)

let run (line : string) : string =
  let t = toks_of_line line in
  expect t "M";
  let slack = next_z t in
  let guard = next_z t in
  (* optionally the schedule to run (thread, clock) -- built by the check from the observations of a scripted
     two-requester scenario; otherwise the sequential schedule is derived here *)
  let given_sched =
    (match t.rest with
     | "SCHED" :: _ -> ignore (next t);
         Some (next_list t (fun t -> let tid = next_int t in let tm = next_z t in (tid, tm)))
     | _ -> None) in
  expect t "scn";
  let _id = next t in
  let lsec = next_int t in
  let lus = zs (string_of_int ((if lsec < 0 then 10 else lsec) * 1000000)) in   (* unset: SetDefault(expire-cache, 10) *)
  expect t "NC"; let clusters = Array.of_list (next_list t (fun t -> unhex (next t))) in
  expect t "NG"; let groups = Array.of_list (next_list t (fun t -> unhex (next t))) in
  expect t "NV"; let contents = Array.of_list (next_list t read_content) in
  expect t "ST";
  let has_burst = ref false in
  let _steps = next_list t (fun t ->
    match next t with
    | "U" -> ignore (next t); ignore (next t); ignore (next t)
    | "Q" -> ignore (next t); ignore (next t); ignore (next t)
    | "S" | "W" | "WR" -> ignore (next t)
    | "M" -> ignore (next t); ignore (next t)
    | "C" -> has_burst := true;
        ignore (next t); ignore (next t); ignore (next t); ignore (next t);
        ignore (next_list t (fun t -> ignore (next t); ignore (next t); ignore (next t)))
    | k -> failwith ("drv_cache: step " ^ k)) in
  expect t "OBS";
  let _ = next t in
  let first = next t in
  if first = "CRASH" then "ORACLE FAIL crash REPLAY -" else
  let nev = int_of_string first in
  let rec read_evs n acc =
    if n = 0 then List.rev acc else
    let e = match next t with
      | "U" -> let tm = next_z t in let ci = next_int t in let gi = next_int t in let v = next_int t in U (tm, ci, gi, v)
      | "L" -> let tm = next_z t in let c = unhex (next t) in let g = unhex (next t) in let v = next_int t in Lk (tm, c, g, v)
      | "W" | "X" -> ignore (next t); ignore (next t); Stall
      | "Q" -> let i = next_int t in let tm = next_z t in let ci = next_int t in let gi = next_int t in
               let sa = next_int t = 1 in Q (i, tm, ci, gi, sa)
      | "R" -> let i = next_int t in let tm = next_z t in let c = unhex (next t) in let g = unhex (next t) in
               let n = next_int t in
               let body = cat (List.init n (fun _ -> next t)) in R (i, tm, c, g, body)
      | k -> failwith ("drv_cache: event " ^ k) in
    read_evs (n - 1) (e :: acc) in
  let evs = read_evs nev [] in
  expect t "RC";
  let counts = Array.of_list (next_list t next_int) in
  expect t "ALIAS";
  let alias = next_int t in

  let zlt a b = ZA.lt (zt_of_coqz a) (zt_of_coqz b) in
  let zle a b = ZA.leq (zt_of_coqz a) (zt_of_coqz b) in
  (* storage as a function of time, from the observed updates *)
  let updates = List.filter_map (function U (tm, ci, gi, v) -> Some (tm, clusters.(ci), groups.(gi), v) | _ -> None) evs in
  let version_at (tm : z) (c : z list) (g : z list) : int =
    List.fold_left (fun acc (ut, uc, ug, v) -> if zle ut tm && uc = c && ug = g then v else acc) 0 updates in
  let lookup (tm : z) (c : z list) (g : z list) : data option =
    let v = version_at tm c g in
    if v = 0 then None else Some (build contents.(v - 1) tm) in

  (* requests by index *)
  let nreq = Array.length counts in
  let qarr = Array.make nreq None in
  List.iter (function Q (i, tm, ci, gi, sa) -> qarr.(i) <- Some (tm, ci, gi, sa) | _ -> ()) evs;
  let qget i = match qarr.(i) with Some q -> q | None -> failwith "drv_cache: request without Q event" in

  (* ---------------- ORACLE ---------------- *)
  let qs = List.init nreq (fun i -> let (tm, ci, gi, sa) = qget i in
    { q_c = clusters.(ci); q_g = groups.(gi); q_sa = sa; q_t = tm }) in
  let looks = List.filter_map (function
    | Lk (tm, c, g, v) -> Some { l_t = tm; l_c = c; l_g = g; l_x = (if v = 0 then None else Some (build contents.(v - 1) tm)) }
    | _ -> None) evs in
  let reps = List.filter_map (function
    | R (i, tm, c, g, body) ->
        Some { r_i = nat_of_int i; r_t = tm; r_c = c; r_g = g;
               r_v = (if body = notfound_body then None else Some (Parsed body)) }
    | _ -> None) evs in
  (* replies that arrived after the first one was taken (drained at the end) count as further replies *)
  let seen = Array.make nreq 0 in
  List.iter (function R (i, _, _, _, _) -> seen.(i) <- seen.(i) + 1 | _ -> ()) evs;
  let extra = List.concat (List.init nreq (fun i ->
    List.init (max 0 (counts.(i) - seen.(i))) (fun _ -> { r_i = nat_of_int i; r_t = zi 0; r_c = []; r_g = []; r_v = None }))) in
  let verdicts = check_obs evalf filt lus wv_eqb slack qs looks (reps @ extra) in
  let bad = List.concat (List.mapi (fun i v -> if iz v = 0 then [] else [ Printf.sprintf "%d:%d" i (iz v) ]) verdicts) in
  let bad = if alias <> 0 then bad @ [ "alias:4" ] else bad in
  let oracle = if bad = [] then "ok" else "FAIL " ^ String.concat "," bad in

  (* ---------------- REPLAY ---------------- *)
  let replay =
    if !has_burst && given_sched = None then "-" else begin
      let reqs = List.init nreq (fun i -> let (_, ci, gi, sa) = qget i in ((clusters.(ci), groups.(gi)), sa)) in
      (* the code's filtered view: the cached object is left alone, a copy is handed out (Cache.pure_op) *)
      let stepf = step evalf (fun w -> (w, filt w)) lookup mk_key split_key lus true in
      let st = ref (init reqs) in
      let lq = ref (List.filter_map (function Lk (tm, _, _, _) -> Some tm | _ -> None) evs) in
      let flags = ref [] in
      let flag s = if not (List.mem s !flags) then flags := s :: !flags in
      let rarr = Array.make nreq None in
      List.iter (function R (i, tm, _, _, _) -> if rarr.(i) = None then rarr.(i) <- Some tm | _ -> ()) evs;
      let zabs_lt a b g = (* |a - b| < g *)
        ZA.lt (ZA.abs (ZA.sub (zt_of_coqz a) (zt_of_coqz b))) (zt_of_coqz g) in
      let run_thread (tid : int) (tq : z) (tr : z option) (limit : z option) (stop_at_reply : bool) =
        let fin = ref false in
        let n = ref 0 in
        while not !fin && !n < 10 do
          incr n;
          let th = List.nth !st.threads tid in
          let k = mk_key th.th_c th.th_g in
          let near_expiry tm =
            match find_entry k !st.cache with
            | Some e -> if zabs_lt tm (coqz_of_zt (ZA.add (zt_of_coqz e.e_created) (zt_of_coqz lus))) guard then flag "AMBIG"
            | None -> () in
          (match th.th_ph with
           | PRead -> near_expiry tq; st := stepf !st (nat_of_int tid) tq
           | PLookup ->
               (match !lq with
                | tm :: rest when (match limit with Some l -> zlt tm l | None -> true) ->
                    lq := rest; st := stepf !st (nat_of_int tid) tm
                | _ -> flag "NOFETCH"; st := stepf !st (nat_of_int tid) !st.clock)
           | PStoreGood _ | PErrStore _ -> st := stepf !st (nat_of_int tid) !st.clock
           | PErrLoad _ -> near_expiry !st.clock; st := stepf !st (nat_of_int tid) !st.clock
           | PReply _ ->
               if stop_at_reply then fin := true else begin
                 let tm = (match tr with Some x -> x | None -> !st.clock) in
                 st := stepf !st (nat_of_int tid) tm
               end
           | PDone -> fin := true)
        done in
      let run_refreshes (limit : z option) (only_if_fetch_before : z option) =
        let nth = List.length !st.threads in
        for a = nreq to nth - 1 do
          (match (List.nth !st.threads a).th_ph with
           | PDone -> ()
           | _ ->
               let go = (match only_if_fetch_before, !lq with
                         | None, _ -> true
                         | Some l, tm :: _ -> zlt tm l
                         | Some _, [] -> false) in
               if go then run_thread a !st.clock None limit false)
        done in
      (match given_sched with
       | Some sched ->
           List.iter (fun (tid, tm) -> st := stepf !st (nat_of_int tid) tm) sched;
           lq := []
       | None ->
      for i = 0 to nreq - 1 do
        let (tq, _, _, _) = qget i in
        let next_q = if i + 1 < nreq then (let (x, _, _, _) = qget (i + 1) in Some x) else None in
        (* the request's own fetch lies before its reply; a refresh it started may fetch before the requester has
           taken the reply, and in any case before the next request (the probe waits in between) *)
        let own_limit = (match rarr.(i) with Some x -> Some x | None -> next_q) in
        run_thread i tq rarr.(i) own_limit true;
        run_refreshes own_limit rarr.(i);
        run_thread i tq rarr.(i) own_limit false;
        run_refreshes next_q None
      done);
      if !lq <> [] then flag (Printf.sprintf "EXTRA%d" (List.length !lq));
      let tr = List.rev !st.trace in
      (* what each requester is handed: the object of its EvDeliver event (read from the model's heap) *)
      let handed = Hashtbl.create 16 in
      List.iter (function EvDeliver (tid, _, _, _, dv) -> Hashtbl.replace handed (int_of_nat tid) dv | _ -> ()) tr;
      let rs = List.filter_map (function
        | EvReply (tid, _, _, _, c, g, _, _, _, _, _) ->
            let i = int_of_nat tid in
            let body = fmt_body (match Hashtbl.find_opt handed i with Some dv -> dv | None -> None) in
            Some (Printf.sprintf "R %d %s %s %d %s" i (hex c) (hex g) (ntoks body) body)
        | _ -> None) tr in
      let lks = List.filter_map (function
        | EvLookup (_, tm, c, g, _) -> Some (Printf.sprintf "%s %s %s" (sz tm) (hex c) (hex g))
        | _ -> None) tr in
      cat (rs @ [ "LK"; string_of_int (List.length lks) ] @ lks @ [ "FLAGS" ] @ (if !flags = [] then [ "-" ] else List.rev !flags))
    end in
  "ORACLE " ^ oracle ^ " REPLAY " ^ replay
