(* Model side of the zkreader probe (C10, Zookeeper reader): same case lines, same output lines. *)
open Model
open Vutil

let pos_of_string (s : string) : positive = pos_of_zt (ZA.of_string s)
let pos_to_int (p : positive) : int = ZA.to_int (zt_of_pos p)

let read_part t : pnode =
  let ex = next_int t = 1 in
  let _data = next t in
  let pflag = next_int t in
  let pval = next_z t in
  let mtime = next_z t in let mzxid = next_z t in
  let owner = next_z t in
  { pn_exists = ex; pn_parsed = (if pflag = 1 then Some pval else None); pn_mtime = mtime; pn_mzxid = mzxid; pn_owner = owner }

let read_topic t : positive * pnode list =
  let id = pos_of_string (next t) in
  let parts = next_list t read_part in
  (id, parts)

(* returns (gid, accept verdict, printed booleans, node) *)
let read_group t =
  let id = pos_of_string (next t) in
  let _name = next t in
  let a_set = next_int t = 1 in let a_m = next_int t = 1 in
  let d_set = next_int t = 1 in let d_m = next_int t = 1 in
  let b x = if x then "1" else "0" in
  let shown = Printf.sprintf "%d=%s %s %s %s" (pos_to_int id) (b a_set) (b a_m) (b d_set) (b d_m) in
  let has_off = next_int t = 1 in
  let topics = next_list t read_topic in
  (id, zk_accept a_set a_m d_set d_m, shown, { gn_offsets = has_off; gn_topics = topics })

let fmt_action (a : zaction) : string =
  match a with
  | SetOffset (g, t, p, off, ts, ord) ->
      Printf.sprintf "O:%d:%d:%s:%s:%s:%s" (pos_to_int g) (pos_to_int t) (sz p) (sz off) (sz ts) (sz ord)
  | SetOwner (g, t, p, ow) -> Printf.sprintf "W:%d:%d:%s:%s" (pos_to_int g) (pos_to_int t) (sz p) (sz ow)
  | ZPanic -> "PANIC"

let fmt_phase (acts : zaction list) : string =
  if acts = [] then "-" else String.concat "," (List.sort compare (List.map fmt_action acts))

let fuel = nat_of_int 20000

let run (line : string) : string =
  let t = toks_of_line line in
  (match next t with "zk" -> () | k -> failwith ("drv_zkreader: unknown case kind " ^ k));
  let _allow = next t in let _deny = next t in
  let verdicts = ref [] in
  let shown = ref [] in
  let tree = ref [] in
  let add_group () =
    let (id, v, s, node) = read_group t in
    verdicts := (id, v) :: !verdicts;
    shown := !shown @ [s];
    tree := !tree @ [(id, node)] in
  let ng = next_int t in
  for _ = 1 to ng do add_group () done;
  let acc g = try List.assoc g !verdicts with Not_found -> false in
  let st = ref zk_init in
  let settle () =
    let (s', acts) = quiesce fuel acc !tree !st in
    st := s'; fmt_phase acts in
  let fire w k = st := fst (zk_step acc !st (Fire (w, k))) in
  let upd_group gid f =
    tree := List.map (fun (g, n) -> if g = gid then (g, f n) else (g, n)) !tree in
  let upd_topic gid tid f =
    upd_group gid (fun n -> { n with gn_topics = List.map (fun (tp, ps) -> if tp = tid then (tp, f ps) else (tp, ps)) n.gn_topics }) in
  let phases = ref [settle ()] in
  let nm = next_int t in
  for _ = 1 to nm do
    (match next t with
     | "setoff" ->
         let gid = pos_of_string (next t) in let tid = pos_of_string (next t) in let p = next_int t in
         let _data = next t in
         let pflag = next_int t in let pval = next_z t in
         let mtime = next_z t in let mzxid = next_z t in let owner = next_z t in
         upd_topic gid tid (fun ps -> List.mapi (fun i pn ->
           if i = p then { pn with pn_parsed = (if pflag = 1 then Some pval else None); pn_mtime = mtime; pn_mzxid = mzxid; pn_owner = owner }
           else pn) ps);
         fire (WOffset (gid, tid, zi p)) Changed
     | "addgroup" -> add_group (); fire WGroupList Changed
     | "addtopic" ->
         let gid = pos_of_string (next t) in
         let tp = read_topic t in
         upd_group gid (fun n -> { n with gn_topics = n.gn_topics @ [tp] });
         fire (WTopicList gid) Changed
     | "addpart" ->
         let gid = pos_of_string (next t) in let tid = pos_of_string (next t) in
         let pn = read_part t in
         upd_topic gid tid (fun ps -> ps @ [pn]);
         fire (WPartList (gid, tid)) Changed
     | "mkoffsets" ->
         let gid = pos_of_string (next t) in
         upd_group gid (fun n -> { n with gn_offsets = true });
         fire (WExists (gid, false)) OtherEvent;
         fire (WExists (gid, true)) OtherEvent
     | "expire" ->
         List.iter (fun w -> fire w NotWatching) !st.watches;
         st := fst (zk_step acc !st ZExpire)
     | k -> failwith ("drv_zkreader: unknown mutation " ^ k));
    phases := !phases @ [settle ()]
  done;
  let kn = List.sort compare (List.map (fun (g, ts) ->
    (pos_to_int g, List.sort compare (List.map (fun (tp, c) -> (pos_to_int tp, sz c)) ts))) !st.known) in
  let kn_s = List.map (fun (g, ts) ->
    Printf.sprintf "%d[%s]" g (String.concat ";" (List.map (fun (tp, c) -> Printf.sprintf "%d=%s" tp c) ts))) kn in
  String.concat " | " !phases ^ " || K " ^ String.concat " " kn_s ^ " || A " ^ String.concat " " !shown
  ^ (if !st.zcrashed then " PANIC" else "")
