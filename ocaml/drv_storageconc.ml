(* Model side of the schedule probe (C08): same case line as probes/storageconc, followed by `prio n g..`. *)
open Model
open Vutil

let fmt_off (o : coff option) : string =
  match o with
  | None -> "nil"
  | Some c -> Printf.sprintf "(%s,%s,%s,%s)" (sz c.co_offset) (sz c.co_order) (sz c.co_ts)
                (match c.co_lag with None -> "n" | Some l -> sz l)

let zcmp a b = ZA.compare (zt_of_coqz a) (zt_of_coqz b)

let fmt_strings (l : z list) : string =
  let l = List.sort zcmp l in
  cat (["L"; string_of_int (List.length l)] @ List.map sz l)

let fmt_consumer (l : (z * cpart list) list) : string =
  let l = List.sort (fun (a, _) (b, _) -> zcmp a b) l in
  cat (["K"; string_of_int (List.length l)] @
       List.concat_map (fun (t, parts) ->
         [sz t; string_of_int (List.length parts)] @
         List.concat_map (fun p ->
           [sz p.cp_owner; sz p.cp_client; sz p.cp_lag; string_of_int (List.length p.cp_brokers)] @
           List.map sz p.cp_brokers @
           [string_of_int (List.length p.cp_offsets)] @ List.map fmt_off p.cp_offsets) parts) l)

let fmt_reply (r : reply) : string =
  match r with
  | RNone -> "NONE"
  | RNil -> "NIL"
  | RStrings l -> fmt_strings l
  | RInts l -> cat (["I"; string_of_int (List.length l)] @ List.map sz l)
  | RConsumer l -> fmt_consumer l

let parse_req (t : toks) : req =
  let z () = next_z t in
  match next t with
  | "B" -> let c = z () in let tp = z () in let p = z () in let cnt = z () in let off = z () in SetBrokerOffset (c, tp, p, cnt, off)
  | "C" -> let c = z () in let g = z () in let tp = z () in let p = z () in let off = z () in let order = z () in let ts = z () in
           SetConsumerOffset (c, g, tp, p, off, order, ts)
  | "O" -> let c = z () in let g = z () in let tp = z () in let p = z () in let o = z () in let cl = z () in SetConsumerOwner (c, g, tp, p, o, cl)
  | "X" -> let c = z () in let g = z () in ClearConsumerOwners (c, g)
  | "DT" -> let c = z () in let tp = z () in DeleteTopic (c, tp)
  | "DG" -> let c = z () in let g = z () in let tp = z () in DeleteGroup (c, g, tp)
  | "FC" -> FetchClusters
  | "FG" -> FetchConsumers (z ())
  | "FT" -> FetchTopics (z ())
  | "FX" -> let c = z () in let g = z () in FetchConsumer (c, g)
  | "FO" -> let c = z () in let tp = z () in FetchTopic (c, tp)
  | "FU" -> let c = z () in let tp = z () in FetchConsumersForTopic (c, tp)
  | k -> failwith ("drv_storageconc: unknown op " ^ k)

let lock_name (((l, c), g), m) : string =
  let md = match m with MR -> "r" | MW -> "w" in
  match l with
  | LBroker -> "B" ^ sz c ^ md
  | LConsumer -> "C" ^ sz c ^ md
  | LGroup -> "G" ^ sz c ^ "." ^ sz g ^ md

let fmt_tick (w : int) (t : tick) : string =
  match t with
  | TIdle -> Printf.sprintf "%d.i" w
  | TBlocked -> Printf.sprintf "%d.b" w
  | TDead -> Printf.sprintf "%d.x" w
  | TStep (acq, _after, fin, crashed) ->
      let a = match acq with None -> "-" | Some l -> lock_name l in
      Printf.sprintf "%d.%s/%s" w a (if crashed then "X" else if fin then "D" else "P")

let dump (st : state) : string =
  let st = List.sort (fun (a, _) (b, _) -> zcmp a b) st in
  let b = Buffer.create 256 in
  Buffer.add_string b (Printf.sprintf "S %d" (List.length st));
  List.iter (fun (c, cl) ->
    let bt = List.sort (fun (a, _) (b, _) -> zcmp a b) cl.cl_broker in
    Buffer.add_string b (Printf.sprintf " c%s bt %d" (sz c) (List.length bt));
    List.iter (fun (t, parts) ->
      Buffer.add_string b (Printf.sprintf " t%s %d" (sz t) (List.length parts));
      List.iter (fun r ->
        Buffer.add_string b (" [" ^ String.concat "," (List.map (fun o -> match o with None -> "n" | Some v -> sz v) r) ^ "]")) parts) bt;
    let gr = List.sort (fun (a, _) (b, _) -> zcmp a b) cl.cl_consumer in
    Buffer.add_string b (Printf.sprintf " gr %d" (List.length gr));
    List.iter (fun (g, grp) ->
      let ts = List.sort (fun (a, _) (b, _) -> zcmp a b) grp.g_topics in
      Buffer.add_string b (Printf.sprintf " g%s %s %d" (sz g) (sz grp.g_last) (List.length ts));
      List.iter (fun (t, parts) ->
        Buffer.add_string b (Printf.sprintf " t%s %d" (sz t) (List.length parts));
        List.iter (fun p ->
          Buffer.add_string b (Printf.sprintf " (%s,%s," (sz p.pr_owner) (sz p.pr_client));
          (match p.pr_ring with
           | None -> Buffer.add_string b "noring)"
           | Some w -> Buffer.add_string b (String.concat ";" (List.map fmt_off (List.rev w)) ^ ")"))) parts) ts) gr) st;
  Buffer.contents b

let run (line : string) : string =
  let t = toks_of_line line in
  (match next t with "conc" -> () | k -> failwith ("drv_storageconc: unknown case kind " ^ k));
  let intervals = next_int t in
  (* the hypothesis 1 <= intervals of the C08 theorems: InMemoryStorage.Configure refuses anything below (c110ef6) *)
  if intervals < 1 then "CONFIG-REFUSED" else
  let expire = next_z t in
  let mindist = next_z t in
  let now = next_z t in
  let clusters = next_list t next_z in
  let cf = { cf_intervals = nat_of_int intervals; cf_expire = expire; cf_min_distance = mindist; cf_accept = (fun _ -> true) } in
  let pre = next_list t parse_req in
  let queues = next_list t (fun t -> next_list t parse_req) in
  let sched = next_list t next_int in
  let guarded = ref true in
  let prio = ref [] in
  while has_more t do
    match next t with
    | "prio" -> prio := next_list t (fun t -> next_list t next_z)
    | "unguarded" -> guarded := false
    | k -> failwith ("drv_storageconc: unknown trailer " ^ k)
  done;
  let st = ref (init_state clusters) in
  let precrash = ref false in
  List.iter (fun r ->
    if not !precrash then
      match run_alone cf now !guarded [] (nat_of_int 200) !st r with
      | Some (st', _) -> st := st'
      | None -> precrash := true) pre;
  let gs0 = init_g !st queues !prio in
  let (gs1, ticks) = sched_run cf now !guarded gs0 (List.map nat_of_int sched) in
  let (gs2, dticks) = drain cf now !guarded (nat_of_int 2000) gs1 in
  let trace =
    (if !precrash then ["PRECRASH"] else []) @
    List.map2 fmt_tick sched ticks @ List.map (fun (w, tk) -> fmt_tick (int_of_nat w) tk) dticks in
  let head = "T " ^ String.concat " " trace in
  if gs2.g_crashed then head ^ " | CRASH"
  else if unfinished gs2 then head ^ " | DEADLOCK"
  else begin
    let reps = List.concat (List.mapi (fun w wk -> List.map (fun r -> Printf.sprintf "r%d: %s" w (fmt_reply r)) wk.w_out) gs2.g_ws) in
    String.concat " | " ([head] @ reps @ [dump gs2.g_st; "alias=0"])
  end
