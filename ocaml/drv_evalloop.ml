(* Model side of the evalloop probe (C15): same case lines, same output lines.
   loop cases print "<sequential machine> || <interleaved machine>"; the check compares the implementation with the
   sequential machine and uses the interleaved one to classify the lost wake-up (F8). *)
open Model
open Vutil

let pos_of_string (s : string) : positive = pos_of_zt (ZA.of_string s)
let pos_to_string (p : positive) : string = ZA.to_string (zt_of_pos p)

(* ---- loop scenarios ---- *)
let obs_of step (s : state) (k : int) : state * string =
  let now = zs (string_of_int ((k + 2) * 3000000000)) in   (* the probe's clock jumps 2 s per iteration; interval 1 *)
  let (s', acts) = step s (Tick now) in
  let ev = List.exists (fun a -> match a with Eval (_, _) -> true | _ -> false) acts in
  let pend = match s'.ph with Locking -> "L" | Unlocking -> "U" | Crashed -> "X" | _ -> "-" in
  (s', pend ^ (if ev then "1" else "0"))

let run_loop (step : state -> event -> (state * action list)) (interleaved : bool) (conn0 : bool) (steps : string list) : string =
  let gs = groups_of_list [ (pos_of_string "1", zs "0") ] in
  let s = ref (init_state conn0 gs) in
  let app evs = s := fst (feed step !s evs) in
  let settle_now () = s := fst (settle step !s) in
  settle_now ();
  let out = List.mapi (fun k stp ->
    let bad = ref false in
    List.iter (fun a ->
      match a with
      | "ok" | "err" | "okx" ->
          settle_now ();
          if !s.ph <> Locking then bad := true;
          (match a with
           | "ok" -> app [LockOk]
           | "err" -> app [LockErr]
           | _ -> app [LockOk; Expired])
      | "uok" ->
          settle_now ();
          if !s.ph <> Unlocking then bad := true;
          app [UnlockOk]
      | "x" -> app [Expired]
      | "c" -> app [Connected]
      | "d" -> app [Disconnected]
      | _ -> failwith ("drv_evalloop: unknown action " ^ a))
      (String.split_on_char '+' stp);
    settle_now ();
    let (s', o) = obs_of step !s k in
    s := s';
    (if !bad then "!" else "") ^ o) steps in
  ignore interleaved;
  cat out

let loop t : string =
  let conn0 = next_int t = 1 in
  let steps = t.rest in
  run_loop (step_s (zs "1")) false conn0 steps ^ " || " ^ run_loop (step_i (zs "1")) true conn0 steps

(* ---- pacing ---- *)
let fmt_groups (gs : (positive * z) list) : string =
  let l = List.map (fun (g, le) -> (ZA.to_int (zt_of_pos g), sz le)) gs in
  let l = List.sort compare l in
  String.concat "," (List.map (fun (g, le) -> string_of_int g ^ "=" ^ le) l)

let pace t : string =
  let mi = next_z t in
  let gl = next_list t (fun t -> let g = pos_of_string (next t) in let le = next_z t in (g, le)) in
  let s = ref { ph = Evaluating; doEval = true; conn = true; groups = groups_of_list gl } in
  let evs = next_list t (fun t ->
    match next t with
    | "t" -> Tick (next_z t)
    | "r" -> let now = next_z t in
             let pres = next_list t (fun t -> let g = pos_of_string (next t) in let r = next_z t in (g, r)) in
             Refresh (now, pres)
    | k -> failwith ("drv_evalloop: unknown pace event " ^ k)) in
  let out = List.map (fun e ->
    let (s', acts) = step_s mi !s e in
    s := s';
    if List.mem Panic acts then "PANIC"
    else match e with
      | Tick _ ->
          let gs = List.filter_map (fun a -> match a with Eval (g, _) -> Some (ZA.to_int (zt_of_pos g)) | _ -> None) acts in
          "T:" ^ String.concat "," (List.map string_of_int (List.sort compare gs))
      | _ -> "R:" ^ fmt_groups (groups_to_list s'.groups)) evs in
  cat out

(* ---- configuration + the loop it configures ---- *)
let opt_of_tok (s : string) : z option =
  if s = "-" then None
  else match s.[0] with
    | 'L' | 'F' | 'S' -> Some (zs (String.sub s 1 (String.length s - 1)))
    | _ -> Some (zs s)

let cfg t : string =
  let _src = next t in
  let _root = next t in
  let _slow = next t in
  let mods = next_list t (fun t ->
    let _id = next t in
    let _cls = next t in
    let iv = opt_of_tok (next t) in
    let sv = opt_of_tok (next t) in
    let th = opt_of_tok (next t) in
    { mc_interval = iv; mc_send = sv; mc_threshold = th }) in
  match configure mods with
  | None -> "CFGPANIC"   (* Configure refuses: an interval outside 1 .. 9223372036 *)
  | Some mi ->
  let _now0 = next t in
  let gl = next_list t (fun t -> let g = pos_of_string (next t) in let le = next_z t in (g, le)) in
  let step = step_s mi in
  let s = ref (init_state true (groups_of_list gl)) in
  let app evs = s := fst (feed step !s evs) in
  let settle_now () = s := fst (settle step !s) in
  let pend () = match !s.ph with Locking -> "L" | Unlocking -> "U" | Crashed -> "X" | _ -> "-" in
  (* the evaluator's reply to every request (event a <mode>): Response events, no effect on the state *)
  let ans = ref (-2) in
  let held = ref [] in
  let evals acts =
    let ps = List.filter_map (fun a -> match a with Eval (g, _) -> Some g | _ -> None) acts in
    if !ans >= -1 then List.iter (fun g -> app [Response (g, zs (string_of_int !ans))]) ps;
    if !ans = -3 then held := !held @ ps;
    let gs = List.map (fun g -> ZA.to_int (zt_of_pos g)) ps in
    String.concat "," (List.map string_of_int (List.sort compare gs)) in
  settle_now ();
  let nev = next_int t in
  let out = ref [ "NM:" ^ string_of_int (List.length mods); "MI:" ^ sz mi ] in
  let stop = ref false in
  for _ = 1 to nev do
    if not !stop then begin
      let o = match next t with
        | "k" ->
            let now = next_z t in
            settle_now ();
            if !s.ph = Unlocking then (app [UnlockOk]; settle_now ());
            let bad = !s.ph <> Locking in
            app [LockOk]; settle_now ();
            let (s', acts) = step !s (Tick now) in
            s := s';
            (if bad then "!" else "") ^ "K:" ^ evals acts
        | "a" ->
            ans := (match next t with
                    | "hold" -> -3 | "none" -> -2 | "nil" -> -1 | "nf" -> 0 | "ok" -> 1 | "warn" -> 2 | "err" -> 3 | "stop" -> 4
                    | "stall" -> 5 | "rewind" -> 6 | m -> failwith ("drv_evalloop: unknown answer mode " ^ m));
            "A"
        | "af" ->
            (* late replies: Response events now, whatever the gate is; a module is notified for a bad status (the
               generator keeps threshold <= status and the incident new) *)
            let st = (match next t with
                      | "nf" -> 0 | "ok" -> 1 | "warn" -> 2 | "err" -> 3 | "stop" -> 4 | "stall" -> 5 | "rewind" -> 6
                      | m -> failwith ("drv_evalloop: unknown answer mode " ^ m)) in
            let hs = !held in
            held := [];
            List.iter (fun g -> app [Response (g, zs (string_of_int st))]) hs;
            Printf.sprintf "AF:%d:%d" (List.length hs) (if hs <> [] && st >= 2 then 1 else 0)
        | "e" ->
            settle_now ();
            if !s.ph = Unlocking then (app [UnlockOk]; settle_now ());
            let bad = !s.ph <> Locking in
            app [LockErr]; settle_now ();
            (if bad then "!" else "") ^ "E" ^ pend ()
        | "x" -> app [Expired]; settle_now (); "X" ^ pend ()
        | "t" ->
            let now = next_z t in
            let (s', acts) = step !s (Tick now) in
            s := s';
            "T:" ^ evals acts
        | ("r" | "rs" | "rp") as kind ->
            (* rs: the storage request of this refresh is not taken within the timeout: refresh_events false = no event *)
            let now = next_z t in
            if kind = "rs" then ignore (next t);
            let pres = next_list t (fun t -> let g = pos_of_string (next t) in let r = next_z t in (g, r)) in
            let (s', acts) = feed step !s (refresh_events (kind <> "rs") now pres) in
            s := s';
            if List.mem Panic acts then (stop := true; "PANIC") else "R:" ^ fmt_groups (groups_to_list s'.groups)
        | "ue" ->
            let _now = next_z t in
            settle_now ();
            if !s.ph = Unlocking then begin
              let (s', acts) = step !s UnlockErr in
              s := s';
              if List.mem Panic acts then (stop := true; "PANIC") else "UE" ^ pend ()
            end else "!UE" ^ pend ()
        | k -> failwith ("drv_evalloop: unknown cfg event " ^ k) in
      out := o :: !out
    end
  done;
  cat (List.rev !out)

(* ---- session publisher ---- *)
let zk t : string =
  let conn0 = next_int t = 1 in
  let evs = next_list t (fun t -> let typ = next t in let st = next t in (typ, st)) in
  let s = ref (init_state conn0 (groups_of_list [])) in
  let out = List.map (fun (typ, st) ->
    let zst = match st with "exp" -> ZkExpired | "con" -> ZkConnected | _ -> ZkOtherState in
    let mevs = zk_session (typ = "s") zst !s.conn in
    s := fst (feed (step_s (zs "0")) !s mevs);
    (if !s.conn then "1" else "0") ^ (if List.mem Expired mevs then "b" else "-")) evs in
  cat out

let run (line : string) : string =
  let t = toks_of_line line in
  match next t with
  | "loop" -> loop t
  | "pace" -> pace t
  | "cfg" -> cfg t
  | "zk" -> zk t
  | k -> failwith ("drv_evalloop: unknown case kind " ^ k)
