(* Model side of the template probe (C20): same case lines, same output lines.
   Trusted glue: hex -> Coq string, construction of the data value with Model.build_struct against the regenerated
   schema (fields by name; declaration order, integer types and further fields come from the schema), checked with
   Model.wt on every case: "ILLTYPED" otherwise. *)
open Vutil

let ascii_of_code (n : int) : Model.ascii =
  Model.Ascii (n land 1 <> 0, n land 2 <> 0, n land 4 <> 0, n land 8 <> 0,
               n land 16 <> 0, n land 32 <> 0, n land 64 <> 0, n land 128 <> 0)

let cs (s : string) : Model.ascii list =
  List.init (String.length s) (fun i -> ascii_of_code (Char.code s.[i]))

let unhex (s : string) : string =
  let s = if String.length s > 0 && s.[0] = 'x' then String.sub s 1 (String.length s - 1) else s in
  String.init (String.length s / 2) (fun i -> Char.chr (int_of_string ("0x" ^ String.sub s (2 * i) 2)))

let next_str t : Model.kval = Model.KStr (cs (unhex (next t)))

let tint n = Model.TInt (cs n)
let tnamed n = Model.TNamed (cs n)
let fld n v = (cs n, v)
let kint z = Model.KInt z
let kval v = Model.KVal v
let strct tn fields = Model.build_struct Model.burrow_schema (cs tn) fields

let next_float t : Model.kval =
  let s = next t in Model.KFloat (s <> "nan")

let next_offset t : Model.value =
  if next t = "nil" then Model.VNil (tnamed "ConsumerOffset")
  else begin
    let off = next_z t in let order = next_z t in let ts = next_z t in let obs = next_z t in
    let lag = next t in
    Model.VPtr (strct "ConsumerOffset"
      [ fld "Offset" (kint off); fld "Order" (kint order); fld "Timestamp" (kint ts);
        fld "ObservedTimestamp" (kint obs);
        fld "Lag" (kval (if lag = "n" then Model.VNil (tnamed "Lag")
                         else Model.VPtr (strct "Lag" [ fld "Value" (kint (zs lag)) ]))) ])
  end

let next_partition t : Model.value =
  if next t = "nil" then Model.VNil (tnamed "PartitionStatus")
  else begin
    let topic = next_str t in let part = next_z t in let owner = next_str t in let client = next_str t in
    let status = next_z t in
    let st = next_offset t in let en = next_offset t in
    let lag = next_z t in let complete = next_float t in
    Model.VPtr (strct "PartitionStatus"
      [ fld "Topic" topic; fld "Partition" (kint part); fld "Owner" owner; fld "ClientID" client;
        fld "Status" (kint status);
        fld "Start" (kval st); fld "End" (kval en); fld "CurrentLag" (kint lag); fld "Complete" complete ])
  end

let rec assoc_tmpl (name : Model.ascii list) l =
  match l with
  | [] -> None
  | (n, t) :: r -> if n = name then Some t else assoc_tmpl name r

let read_extras t =
  let nex = next_int t in
  let rec pairs i = if i <= 0 then [] else
      let k = cs (unhex (next t)) in let v = Model.VStr (cs (unhex (next t))) in (k, v) :: pairs (i - 1) in
  let extras = pairs nex in
  (* a Go map holds one value per key: the last one written *)
  List.fold_left (fun acc (k, v) -> (k, v) :: List.filter (fun (k', _) -> k' <> k) acc) [] extras

(* the rest of a case line after the extras: the group status; returns extras -> data value *)
let read_status t cluster group id =
  let status = next_z t in
  let complete = next_float t in
  let totalparts = next_z t in
  let totallag = next_z t in
  let maxlag = next_partition t in
  let np = next_int t in
  let rec parts i = if i <= 0 then [] else let p = next_partition t in p :: parts (i - 1) in
  let partitions = parts np in
  let result = strct "ConsumerGroupStatus"
    [ fld "Cluster" cluster; fld "Group" group; fld "Status" (kint status);
      fld "Complete" complete;
      fld "Partitions" (kval (Model.VSlice (Model.TPtr (tnamed "PartitionStatus"), partitions)));
      fld "TotalPartitions" (kint totalparts); fld "Maxlag" (kval maxlag); fld "TotalLag" (kint totallag) ] in
  fun extras ->
    Model.build_struct Model.burrow_schema (Model.sch_root Model.burrow_schema)
      [ fld "Cluster" cluster; fld "Group" group; fld "ID" id; fld "Start" (kval (Model.VOpaque (cs "time.Time")));
        fld "Extras" (kval (Model.VMap (Model.TStr, extras))); fld "Result" (kval result) ]

let show (r : Model.piece list Model.result) : string =
  match r with
  | Model.Err _ -> "ERR"
  | Model.Ok out -> if Model.pieces_valid out then "OK json=1" else "OK json=0"

let render t : string =
  let name = next t in
  let _stategood = next t in
  let cluster = next_str t in let group = next_str t in let id = next_str t in
  let _start = next_z t in
  let extras = read_extras t in
  let data = read_status t cluster group id extras in
  if not (Model.wt Model.burrow_schema data) then "ILLTYPED"
  else
    match assoc_tmpl (cs name) Model.all_templates with
    | None -> "NO-SUCH-TEMPLATE"
    | Some tm -> show (Model.exec Model.burrow_schema tm data)

(* conf <reps> <#modules> {<name> <class> <open file> <close file> <send-close> <#extras> {k v}} <cluster> <group> <id>
   <start> <status ...>: what each configured module renders for an open and for a close notification
   (Tmpl.module_renders over the association Tmpl.load_templates) *)
let conf t : string =
  let _reps = next t in
  let nm = next_int t in
  let rec mods i = if i <= 0 then [] else begin
      let name = next t in let _cls = next t in let fo = next t in let fc = next t in
      let sc = next t = "1" in
      let extras = read_extras t in
      (name, fo, fc, sc, extras) :: mods (i - 1) end in
  let ms = mods nm in
  let cluster = next_str t in let group = next_str t in let id = next_str t in
  let _start = next_z t in
  let mk = read_status t cluster group id in
  let cfg = List.map (fun (n, fo, fc, sc, _) ->
      { Model.mc_name = cs n; Model.mc_open = cs fo; Model.mc_close = cs fc; Model.mc_send_close = sc }) ms in
  let one (n, _, _, sc, extras) =
    let data = mk extras in
    if not (Model.wt Model.burrow_schema data) then n ^ " ILLTYPED"
    else
      let r good = show (Model.module_renders Model.burrow_schema Model.all_templates cfg (cs n) good data) in
      n ^ " open=" ^ r false ^ " close=" ^ (if sc then r true else "none") in
  String.concat " | " (List.map one (List.sort compare ms))

let run (line : string) : string =
  let t = toks_of_line line in
  match next t with
  | "render" -> render t
  | "conf" -> conf t
  | k -> failwith ("drv_tmpl: unknown case kind " ^ k)
