(* Model side of the template probe (C20): same case lines, same output lines.
   Trusted glue: hex -> Coq string, construction of the data value with Model.build_struct against the regenerated
   schema (fields by name; declaration order, integer types and further fields come from the schema), checked with
   Model.wt on every case: "ILLTYPED" otherwise. *)
open Vutil

let ascii_of_code (n : int) : Model.ascii =
  Model.Ascii (n land 1 <> 0, n land 2 <> 0, n land 4 <> 0, n land 8 <> 0,
               n land 16 <> 0, n land 32 <> 0, n land 64 <> 0, n land 128 <> 0)

let cs (s : string) : Model.ascii list =
  List.init (String.length s) (fun i -> ascii_of_code (Char.code s.[i]))

let unhex (s : string) : string =
  let s = if String.length s > 0 && s.[0] = 'x' then String.sub s 1 (String.length s - 1) else s in
  String.init (String.length s / 2) (fun i -> Char.chr (int_of_string ("0x" ^ String.sub s (2 * i) 2)))

let next_str t : Model.kval = Model.KStr (cs (unhex (next t)))

let tint n = Model.TInt (cs n)
let tnamed n = Model.TNamed (cs n)
let fld n v = (cs n, v)
let kint z = Model.KInt z
let kval v = Model.KVal v
let strct tn fields = Model.build_struct Model.burrow_schema (cs tn) fields

let next_float t : Model.kval =
  let s = next t in Model.KFloat (s <> "nan")

let next_offset t : Model.value =
  if next t = "nil" then Model.VNil (tnamed "ConsumerOffset")
  else begin
    let off = next_z t in let order = next_z t in let ts = next_z t in let obs = next_z t in
    let lag = next t in
    Model.VPtr (strct "ConsumerOffset"
      [ fld "Offset" (kint off); fld "Order" (kint order); fld "Timestamp" (kint ts);
        fld "ObservedTimestamp" (kint obs);
        fld "Lag" (kval (if lag = "n" then Model.VNil (tnamed "Lag")
                         else Model.VPtr (strct "Lag" [ fld "Value" (kint (zs lag)) ]))) ])
  end

let next_partition t : Model.value =
  if next t = "nil" then Model.VNil (tnamed "PartitionStatus")
  else begin
    let topic = next_str t in let part = next_z t in let owner = next_str t in let client = next_str t in
    let status = next_z t in
    let st = next_offset t in let en = next_offset t in
    let lag = next_z t in let complete = next_float t in
    Model.VPtr (strct "PartitionStatus"
      [ fld "Topic" topic; fld "Partition" (kint part); fld "Owner" owner; fld "ClientID" client;
        fld "Status" (kint status);
        fld "Start" (kval st); fld "End" (kval en); fld "CurrentLag" (kint lag); fld "Complete" complete ])
  end

let rec assoc_tmpl (name : Model.ascii list) l =
  match l with
  | [] -> None
  | (n, t) :: r -> if n = name then Some t else assoc_tmpl name r

let read_extras t =
  let nex = next_int t in
  let rec pairs i = if i <= 0 then [] else
      let k = cs (unhex (next t)) in let v = Model.VStr (cs (unhex (next t))) in (k, v) :: pairs (i - 1) in
  let extras = pairs nex in
  (* a Go map holds one value per key: the last one written *)
  List.fold_left (fun acc (k, v) -> (k, v) :: List.filter (fun (k', _) -> k' <> k) acc) [] extras

(* the rest of a case line after the extras: the group status; returns extras -> data value *)
let read_status t cluster group id =
  let status = next_z t in
  let complete = next_float t in
  let totalparts = next_z t in
  let totallag = next_z t in
  let maxlag = next_partition t in
  let np = next_int t in
  let rec parts i = if i <= 0 then [] else let p = next_partition t in p :: parts (i - 1) in
  let partitions = parts np in
  let result = strct "ConsumerGroupStatus"
    [ fld "Cluster" cluster; fld "Group" group; fld "Status" (kint status);
      fld "Complete" complete;
      fld "Partitions" (kval (Model.VSlice (Model.TPtr (tnamed "PartitionStatus"), partitions)));
      fld "TotalPartitions" (kint totalparts); fld "Maxlag" (kval maxlag); fld "TotalLag" (kint totallag) ] in
  fun extras ->
    Model.build_struct Model.burrow_schema (Model.sch_root Model.burrow_schema)
      [ fld "Cluster" cluster; fld "Group" group; fld "ID" id; fld "Start" (kval (Model.VOpaque (cs "time.Time")));
        fld "Extras" (kval (Model.VMap (Model.TStr, extras))); fld "Result" (kval result) ]

let show (r : Model.piece list Model.result) : string =
  match r with
  | Model.Err _ -> "ERR"
  | Model.Ok out -> if Model.pieces_valid out then "OK json=1" else "OK json=0"

let render t : string =
  let name = next t in
  let _stategood = next t in
  let cluster = next_str t in let group = next_str t in let id = next_str t in
  let _start = next_z t in
  let extras = read_extras t in
  let data = read_status t cluster group id extras in
  if not (Model.wt Model.burrow_schema data) then "ILLTYPED"
  else
    match assoc_tmpl (cs name) Model.all_templates with
    | None -> "NO-SUCH-TEMPLATE"
    | Some tm -> show (Model.exec Model.burrow_schema tm data)

(* conf <reps> <#modules> {<name> <class> <open file> <close file> <send-close> <#extras> {k v}} <cluster> <group> <id>
   <start> <status ...>: what each configured module renders for an open and for a close notification
   (Tmpl.module_renders over the association Tmpl.load_templates) *)
let conf t : string =
  let _reps = next t in
  let nm = next_int t in
  let rec mods i = if i <= 0 then [] else begin
      let name = next t in let _cls = next t in let fo = next t in let fc = next t in
      let sc = next t = "1" in
      let extras = read_extras t in
      (name, fo, fc, sc, extras) :: mods (i - 1) end in
  let ms = mods nm in
  let cluster = next_str t in let group = next_str t in let id = next_str t in
  let _start = next_z t in
  let mk = read_status t cluster group id in
  let cfg = List.map (fun (n, fo, fc, sc, _) ->
      { Model.mc_name = cs n; Model.mc_open = cs fo; Model.mc_close = cs fc; Model.mc_send_close = sc }) ms in
  let one (n, _, _, sc, extras) =
    let data = mk extras in
    if not (Model.wt Model.burrow_schema data) then n ^ " ILLTYPED"
    else
      let r good = show (Model.module_renders Model.burrow_schema Model.all_templates cfg (cs n) good data) in
      n ^ " open=" ^ r false ^ " close=" ^ (if sc then r true else "none") in
  String.concat " | " (List.map one (List.sort compare ms))

(* seq <#modules> {module as in conf} <clock0> <#steps> <cluster> <group0> <group1> {<dt> <group index> <status ...>}:
   which notifications the configuration and the sequence call for (threshold 2, send-interval 0, no send-once: an
   open notification for every reply worse than OK, a close notification for an OK reply that ends an incident if the
   module sends them), and what each renders: Tmpl.module_renders on the record Tmpl.run_notifications gives - which
   is checked here, field by field, against the configured extras and that step's incident ("zzfields") *)
let seq t : string =
  let nm = next_int t in
  let rec mods i = if i <= 0 then [] else begin
      let name = next t in let _cls = next t in let fo = next t in let fc = next t in
      let sc = next t = "1" in
      let extras = read_extras t in
      (name, fo, fc, sc, extras) :: mods (i - 1) end in
  let ms = mods nm in
  let clock0 = next_int t in
  let nsteps = next_int t in
  let cluster = next_str t in
  let g0 = next_str t in let g1 = next_str t in
  let cfg = List.map (fun (n, fo, fc, sc, _) ->
      { Model.mc_name = cs n; Model.mc_open = cs fo; Model.mc_close = cs fc; Model.mc_send_close = sc }) ms in
  let fields_extras = match ms with (_, _, _, _, e) :: _ -> e | [] -> [] in
  let all = List.sort compare (("zzfields", "", "", true, fields_extras) :: ms) in
  let strs e = List.map (fun (k, v) -> (k, match v with Model.VStr s -> s | _ -> [])) e in
  let active = Hashtbl.create 4 in            (* group index -> (incident number, start clock) *)
  let incidents = ref 0 in
  let sent = Hashtbl.create 8 in              (* module -> notifications so far *)
  let clock = ref clock0 in
  let out = ref [] in
  for step = 0 to nsteps - 1 do
    clock := !clock + next_int t;
    let gi = next_int t in
    let group = if gi = 0 then g0 else g1 in
    let status_tok = (match t.rest with x :: _ -> int_of_string x | [] -> failwith "seq: status") in
    let mk = read_status t cluster group (Model.KStr (cs "incident")) in
    let good = status_tok = 1 in
    if (not (Hashtbl.mem active gi)) && status_tok > 1 then begin
      incr incidents; Hashtbl.replace active gi (!incidents, !clock) end;
    List.iter (fun (n, _, _, sc, extras) ->
      let kind = if good && Hashtbl.mem active gi && sc then Some true
                 else if (not good) && status_tok >= 2 then Some false else None in
      match kind with
      | None -> ()
      | Some g ->
        let (inc_no, start) = Hashtbl.find active gi in
        let id = cs ("incident-" ^ string_of_int inc_no) in
        let before = try Hashtbl.find sent n with Not_found -> 0 in
        Hashtbl.replace sent n (before + 1);
        (* the record the module builds for this notification, after `before` earlier ones *)
        let note = { Model.nt_incident = { Model.inc_id = id; Model.inc_start = zs (string_of_int start ^ "000000000") };
                     Model.nt_cluster = (match cluster with Model.KStr s -> s | _ -> []);
                     Model.nt_group = (match group with Model.KStr s -> s | _ -> []); Model.nt_status = () } in
        let d = match Model.run_notifications { Model.ms_extras = strs extras; Model.ms_sent = nat_of_int before } [note] with
          | [d] -> d | _ -> failwith "run_notifications" in
        let fields_ok = d.Model.td_extras = strs extras && d.Model.td_id = id && d.Model.td_start = note.Model.nt_incident.Model.inc_start
                        && d.Model.td_cluster = note.Model.nt_cluster && d.Model.td_group = note.Model.nt_group in
        let verdict =
          if not fields_ok then "MODEL-FIELDS-DIFFER"
          else if n = "zzfields" then "FIELDS-OK"
          else
            let data = mk (List.map (fun (k, v) -> (k, Model.VStr v)) d.Model.td_extras) in
            if not (Model.wt Model.burrow_schema data) then "ILLTYPED"
            else show (Model.module_renders Model.burrow_schema Model.all_templates cfg (cs n) g data) in
        out := (Printf.sprintf "s%d %s %s %s" step n (if g then "close" else "open") verdict) :: !out) all;
    if good then Hashtbl.remove active gi
  done;
  String.concat " | " (List.rev !out)

(* hcall <helper> <rest of a render line>: the VALUE a documented helper returns for the status, in a canonical text
   (map keys and topic lists sorted), from the model's apply_fn *)
let str_of (s : Model.ascii list) : string =
  let code (Model.Ascii (b0, b1, b2, b3, b4, b5, b6, b7)) =
    let b x k = if x then k else 0 in b b0 1 + b b1 2 + b b2 4 + b b3 8 + b b4 16 + b b5 32 + b b6 64 + b b7 128 in
  String.concat "" (List.map (fun a -> String.make 1 (Char.chr (code a))) s)

let field_of (v : Model.value) (name : string) : Model.value option =
  match v with
  | Model.VStruct (_, fs) -> (try Some (List.assoc (cs name) fs) with Not_found -> None)
  | _ -> None

let hcall t : string =
  let which = next t in
  let _tmpl = next t in
  let _stategood = next t in
  let cluster = next_str t in let group = next_str t in let id = next_str t in
  let _start = next_z t in
  let extras = read_extras t in
  let data = read_status t cluster group id extras in
  let sch = Model.burrow_schema in
  match field_of data "Result" with
  | None -> "ILLTYPED"
  | Some result ->
    let get n = match field_of result n with Some v -> v | None -> Model.VBool false in
    let canon_int v = match v with Model.VInt (_, z) -> sz z | _ -> "?" in
    (match which with
     | "topicsbystatus" ->
       (match Model.apply_fn sch Model.FTopics [get "Partitions"] with
        | Model.Ok (Model.VMap (_, kv)) ->
          let entry (k, v) = match v with
            | Model.VSlice (_, l) ->
              str_of k ^ "=" ^ String.concat "," (List.sort compare (List.map (fun x -> match x with Model.VStr s -> str_of s | _ -> "?") l))
            | _ -> str_of k ^ "=?" in
          "OK " ^ String.concat ";" (List.sort compare (List.map entry kv))
        | Model.Ok _ -> "OK ?"
        | Model.Err _ -> "ERR")
     | "partitioncounts" ->
       (match Model.apply_fn sch Model.FCounts [get "Partitions"] with
        | Model.Ok (Model.VMap (_, kv)) ->
          "OK " ^ String.concat ";" (List.sort compare (List.map (fun (k, v) -> str_of k ^ "=" ^ canon_int v) kv))
        | Model.Ok _ -> "OK ?"
        | Model.Err _ -> "ERR")
     | "maxlag" ->
       (match Model.apply_fn sch Model.FMaxlag [get "Maxlag"] with
        | Model.Ok v -> "OK " ^ canon_int v
        | Model.Err _ -> "ERR")
     | "arith" ->
       let a = get "TotalPartitions" in
       let seven = Model.VInt (Model.TInt (cs "int"), zi 7) in
       let one f = match Model.apply_fn sch f [a; seven] with Model.Ok v -> canon_int v | Model.Err _ -> "ERR" in
       "OK " ^ String.concat " " [one Model.FAdd; one Model.FMinus; one Model.FMul; one Model.FDiv]
     | k -> failwith ("drv_tmpl: unknown helper " ^ k))

let run (line : string) : string =
  let t = toks_of_line line in
  match next t with
  | "render" -> render t
  | "conf" -> conf t
  | "seq" -> seq t
  | "hcall" -> hcall t
  | k -> failwith ("drv_tmpl: unknown case kind " ^ k)
