(* Model side of the cluster probe: same case lines, same output lines.
   Case:   scn|scnx <ncycles> { <tick> <topics_ok> <k> <topic>*k
                                <nT> { <topic> <parts_ok> <np> { <pid> <leader|-1> <kerror> <noffs> <off>* } }
                                <nF> <failing broker>* }
   Output: cycles joined by " | "; a cycle is  M<refresh attempted> F<fetchMetadata after> R <b:t:p,..|-> U <t:p:off:count,..|-> D <t,..|->
           or CRASH (the process died in that cycle; nothing follows).
   Second format (storage-scripted; the suffix of the kind only routes the case inside the probe):
           sc2|sc2x|sc2s|sc2w <kafka-version index> <ncycles> { <sd> <su> <rp> <rm> <cycle as above> }
     sd: storage stalls at the start of the cycle (only delays: SetDeleteTopic is a blocking send)
     su: storage takes no broker-offset update within the 1 s timeout in this cycle (storage_beh = fun _ => false)
     rp: a groups-reaper tick follows the cycle;  rm: client.RefreshMetadata returns an error   (both: no effect on
     the model; kept in the tie, like the kafka-version)
     U = the updates the storage module RECEIVED, D = the deletions it received (ClusterMod.run_s / received).
   Third format (worlds outside the two assumptions of `env`: ClusterMod.xenv / xrun):
           sc3|sc3x <kafka-version index> <ncycles> { <sd> <su> <rp> <rm> <tick> <topics_ok> <k> <topic>*k
                <nT> { <topic> <parts_ok> <np> { <pid> <leader at refresh|-1> <leader in generateOffsetRequests|-1> <omit>
                                                 <kerror> <noffs> <off>* } }
                <nF> <failing broker>*
                <nX> { <broker> <topic> <pid> <kerror> <noffs> <off>* } }        (blocks a broker adds unasked) *)
open Model
open Vutil

let read_cycle t : bool * env =
  let tk = next_int t = 1 in
  let topics_ok = next_int t = 1 in
  let topics = next_list t next_z in
  let tb = next_list t (fun t ->
    let id = next_z t in
    let ok = next_int t = 1 in
    let parts = next_list t (fun t ->
      let p = next_z t in
      let l = next t in
      let err = next_z t in
      let offs = next_list t next_z in
      { pr_id = p; pr_leader = (if l = "-1" then Fail else Good (zs l)); pr_err = err; pr_offs = offs }) in
    { tr_id = id; tr_ok = ok; tr_parts = parts }) in
  let failing = next_list t next_z in
  (tk, env_of_tables (if topics_ok then Good topics else Fail) tb failing)

let cmp_zl (a : ZA.t list) (b : ZA.t list) : int =
  let rec go a b = match a, b with
    | [], [] -> 0 | [], _ -> -1 | _, [] -> 1
    | x :: r, y :: s -> let c = ZA.compare x y in if c <> 0 then c else go r s in
  go a b

let csv (items : ZA.t list list) : string =
  if items = [] then "-" else
  String.concat "," (List.map (fun it -> String.concat ":" (List.map ZA.to_string it)) (List.sort cmp_zl items))

let b01 b = if b then "1" else "0"

let fmt_cycle ((pre, o) : bool * cycle_out outcome) : string =
  match o with
  | Crash -> "CRASH"
  | Done o ->
    let z = zt_of_coqz in
    cat [ "M" ^ b01 pre; "F" ^ b01 o.co_state.fetchMetadata;
          "R"; csv (List.map (fun ((b, tp), p) -> [z b; z tp; z p]) o.co_asks);
          "U"; csv (List.map (fun (((tp, p), off), c) -> [z tp; z p; z off; z c]) o.co_updates);
          "D"; csv (List.map (fun tp -> [z tp]) o.co_deletes) ]

let read_cycle_s t : (bool * env) * storage_beh =
  let _sd = next_int t in
  let su = next_int t = 1 in
  let _rp = next_int t in
  let _rm = next_int t in
  let c = read_cycle t in
  (c, (if su then (fun _ -> false) else prompt))

let fmt_cycle_s ((pre, o) : bool * (cycle_out * sreq list) outcome) : string =
  match o with
  | Crash -> "CRASH"
  | Done (o, sv_out) ->
    let z = zt_of_coqz in
    let ups = List.concat_map (fun r -> match r with SBrokerOffset u -> [u] | SDeleteTopic _ -> []) sv_out in
    let dels = List.concat_map (fun r -> match r with SDeleteTopic tp -> [tp] | SBrokerOffset _ -> []) sv_out in
    cat [ "M" ^ b01 pre; "F" ^ b01 o.co_state.fetchMetadata;
          "R"; csv (List.map (fun ((b, tp), p) -> [z b; z tp; z p]) o.co_asks);
          "U"; csv (List.map (fun (((tp, p), off), c) -> [z tp; z p; z off; z c]) ups);
          "D"; csv (List.map (fun tp -> [z tp]) dels) ]

let read_xcycle t : bool * xenv =
  let _sd = next_int t in
  let _su = next_int t in
  let _rp = next_int t in
  let _rm = next_int t in
  let tk = next_int t = 1 in
  let topics_ok = next_int t = 1 in
  let topics = next_list t next_z in
  let ld s = if s = "-1" then Fail else Good (zs s) in
  let tb = next_list t (fun t ->
    let id = next_z t in
    let ok = next_int t = 1 in
    let parts = next_list t (fun t ->
      let p = next_z t in
      let l1 = next t in
      let l2 = next t in
      let om = next_int t = 1 in
      let err = next_z t in
      let offs = next_list t next_z in
      { xp_row = { pr_id = p; pr_leader = ld l1; pr_err = err; pr_offs = offs }; xp_leader_req = ld l2; xp_omit = om }) in
    { xt_id = id; xt_ok = ok; xt_parts = parts }) in
  let failing = next_list t next_z in
  let extras = next_list t (fun t ->
    let b = next_z t in
    let tp = next_z t in
    let p = next_z t in
    let err = next_z t in
    let offs = next_list t next_z in
    ((((b, tp), p), err), offs)) in
  (tk, xenv_of_tables (if topics_ok then Good topics else Fail) tb failing extras)

let run (line : string) : string =
  let t = toks_of_line line in
  match next t with
  | "scn" | "scnx" ->
    let cycles = next_list t read_cycle in
    String.concat " | " (List.map fmt_cycle (run init_state cycles))
  | "sc2" | "sc2x" | "sc2s" | "sc2w" ->
    let _kv = next_int t in
    let cycles = next_list t read_cycle_s in
    String.concat " | " (List.map fmt_cycle_s (run_s init_state cycles))
  | "sc3" | "sc3x" ->
    let _kv = next_int t in
    let cycles = next_list t read_xcycle in
    String.concat " | " (List.map fmt_cycle (xrun init_state cycles))
  | k -> failwith ("drv_cluster: unknown case kind " ^ k)
