(* Glue between text lines and the extracted Coq datatypes.  Trusted: decimal <-> Coq Z
   (through zarith), tokenising, canonical printing. *)
module ZA = Z
open Model

let rec pos_of_zt (n : ZA.t) : positive =
  if ZA.equal n ZA.one then XH
  else if ZA.testbit n 0 then XI (pos_of_zt (ZA.shift_right n 1))
  else XO (pos_of_zt (ZA.shift_right n 1))

let coqz_of_zt (n : ZA.t) : z =
  if ZA.sign n = 0 then Z0
  else if ZA.sign n > 0 then Zpos (pos_of_zt n)
  else Zneg (pos_of_zt (ZA.neg n))

let rec zt_of_pos (p : positive) : ZA.t =
  match p with
  | XH -> ZA.one
  | XO q -> ZA.shift_left (zt_of_pos q) 1
  | XI q -> ZA.succ (ZA.shift_left (zt_of_pos q) 1)

let zt_of_coqz (x : z) : ZA.t =
  match x with Z0 -> ZA.zero | Zpos p -> zt_of_pos p | Zneg p -> ZA.neg (zt_of_pos p)

let zs (s : string) : z = coqz_of_zt (ZA.of_string s)
let sz (x : z) : string = ZA.to_string (zt_of_coqz x)
let zi (i : int) : z = coqz_of_zt (ZA.of_int i)
let iz (x : z) : int = ZA.to_int (zt_of_coqz x)

let rec nat_of_int (i : int) : nat = if i <= 0 then O else S (nat_of_int (i - 1))
let rec int_of_nat (n : nat) : int = match n with O -> 0 | S m -> 1 + int_of_nat m

(* token stream over one line *)
type toks = { mutable rest : string list }
let toks_of_line (l : string) : toks =
  { rest = List.filter (fun s -> s <> "") (String.split_on_char ' ' (String.trim l)) }
let next (t : toks) : string =
  match t.rest with
  | [] -> failwith "vutil: out of tokens"
  | x :: r -> t.rest <- r; x
let has_more (t : toks) : bool = t.rest <> []
let next_z t = zs (next t)
let next_int t = int_of_string (next t)
let next_list t (f : toks -> 'a) : 'a list =
  let n = next_int t in
  let rec go i acc = if i = 0 then List.rev acc else go (i - 1) (f t :: acc) in
  go n []

let read_lines (path : string) : string list =
  let ic = open_in path in
  let rec go acc = match input_line ic with
    | l -> go (l :: acc)
    | exception End_of_file -> close_in ic; List.rev acc in
  go []

let cat (l : string list) : string = String.concat " " l
