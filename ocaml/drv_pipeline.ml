(* Model side of the end-to-end probe: one case = one run of the composed machine Pipeline.pipe_step.

   case line
     pipe <intervals> <expire> <mindist> <minimum-complete bits> <allowed-lag> <now0> <storage allow> <storage deny>
          <ncl> { <cluster id> <reader allow> <reader deny> } <nev> { event }
     event := T <now>
            | K <cluster> <order> <keyhex> <valuehex>
            | Y <cluster> <tick> <topics_ok> <k> <topic>*k <nT> { <topic> <parts_ok> <np> { <pid> <leader|-1> <kerror> <noffs> <off>* } }
                <nF> <failing broker>*  @ <nD> <topic>* <nU> { <topic> <partition> <offset> <count> }
              (the part after @ is what the REAL cluster module sent in this cycle, used by the Go probe only)
            | S <cluster> <grouphex> <order 0|1>      two status requests: 0 = full view then problems-only view, 1 = the reverse
            | P <cluster> <ngoroutines> { <nmsg> { <order> <keyhex> <valuehex> } }
                                                      a batch of messages decoded CONCURRENTLY (one goroutine per list, as the
                                                      per-partition consumers of the offsets topic do); the groups of different
                                                      lists are disjoint, so every interleaving that keeps each list's order
                                                      leaves the same observable state (C08: per-group FIFO + frame); the model
                                                      runs the lists one after the other
            | L <cluster>                             the consumer list of the cluster (StorageFetchConsumers on the composed
                                                      machine's storage state; what GET /v3/kafka/<cluster>/consumer serves)
   <allow>/<deny> index the pattern pool (0 = key absent, 7 = key present but empty: no list either), names are hex ("-" = empty); topic ids n of the cluster tables are
   the names "t<n>".

   output: the answers of the S and L events joined by " | "; "DIED" when the model says the process dies.
     list   := L NIL | L <n> <grouphex>*   (sorted)
     answer := <F|P> NF
             | <F|P> <status> <complete bits> <total partitions> <total lag> M <topic:partition:lag | T:lag | -> P <n> { part }
     part := <topichex>:<partition>:<status>:<lag>:<complete bits>:<ownerhex>:<clienthex>:<start>:<end>
     start/end := n | offset.order.timestamp.lag     (lag n when absent)
   Partitions are sorted by (topic, partition).  M is "T:<lag>" when partitions of more than one topic carry the largest
   lag (which of them Go reports depends on map iteration order). *)
open Model
open Vutil

let hex_of_bytes (b : z list) : string =
  if b = [] then "-" else String.concat "" (List.map (fun x -> Printf.sprintf "%02x" (iz x)) b)

let bytes_of_hex (s : string) : z list =
  if s = "-" then [] else begin
    let n = String.length s / 2 in
    let rec go i acc = if i < 0 then acc else go (i - 1) (zi (int_of_string ("0x" ^ String.sub s (2 * i) 2)) :: acc) in
    go (n - 1) []
  end

let string_of_bytes (b : z list) : string = String.concat "" (List.map (fun x -> String.make 1 (Char.chr ((iz x) land 255))) b)
let bytes_of_string (s : string) : z list = List.init (String.length s) (fun i -> zi (Char.code s.[i]))

(* ---- interning: an injective function from byte strings to Z with "" -> 0 and "t<n>" -> n (1 <= n < 10^6, no leading
   zero): the cluster tables name topics by number ---- *)
let tbl : (string, int) Hashtbl.t = Hashtbl.create 64
let rev : (int, string) Hashtbl.t = Hashtbl.create 64
let fresh = ref 1000000

let topic_number (s : string) : int option =
  let n = String.length s in
  if n < 2 || n > 7 || s.[0] <> 't' || s.[1] = '0' then None
  else begin
    let ok = ref true in
    for i = 1 to n - 1 do if s.[i] < '0' || s.[i] > '9' then ok := false done;
    if !ok then Some (int_of_string (String.sub s 1 (n - 1))) else None
  end

let name_int (s : string) : int =
  if s = "" then 0 else
  match topic_number s with
  | Some k -> k
  | None ->
    (match Hashtbl.find_opt tbl s with
     | Some i -> i
     | None -> let i = !fresh in incr fresh; Hashtbl.replace tbl s i; Hashtbl.replace rev i s; i)

let name (b : z list) : z = zi (name_int (string_of_bytes b))

let unname (x : z) : string =
  let i = iz x in
  if i = 0 then "" else if i < 1000000 then "t" ^ string_of_int i
  else match Hashtbl.find_opt rev i with Some s -> s | None -> failwith "drv_pipeline: unknown name id"

let hex_of_name (x : z) : string = hex_of_bytes (bytes_of_string (unname x))

(* the pattern pool of the probe as predicates over the group bytes *)
let pat_match (idx : int) (g : int list) : bool =
  let first = match g with x :: _ -> Some x | [] -> None in
  let last = match List.rev g with x :: _ -> Some x | [] -> None in
  match idx with
  | 1 -> first = Some 97                       (* ^a *)
  | 2 -> last = Some 98                        (* b$ *)
  | 3 -> true                                  (* .* *)
  | 4 -> g = []                                (* ^$ *)
  | 5 -> first = Some 97 || first = Some 98    (* ^(a|b) *)
  | 6 -> List.mem 120 g                        (* x *)
  | _ -> failwith "drv_pipeline: pattern index"

(* list settings (PIPE's own pool, mirrors checks/pipegen.py and probes/pipeline): 0 = key absent, 1..6 = a pattern,
   7 = key present with the empty string = no list *)
let is_set (idx : int) : bool =
  if idx < 0 || idx > 7 then failwith "drv_pipeline: list setting outside the pool" else idx <> 0 && idx <> 7

let accept (allow : int) (deny : int) (g : int list) : bool =
  (not (is_set allow) || pat_match allow g) && not (is_set deny && pat_match deny g)

let ints_of_string (s : string) : int list = List.init (String.length s) (fun i -> Char.code s.[i])

let read_cycle t : bool * env =
  let tk = next_int t = 1 in
  let topics_ok = next_int t = 1 in
  let topics = next_list t next_z in
  let tb = next_list t (fun t ->
    let id = next_z t in
    let ok = next_int t = 1 in
    let parts = next_list t (fun t ->
      let p = next_z t in
      let l = next t in
      let err = next_z t in
      let offs = next_list t next_z in
      { pr_id = p; pr_leader = (if l = "-1" then Fail else Good (zs l)); pr_err = err; pr_offs = offs }) in
    { tr_id = id; tr_ok = ok; tr_parts = parts }) in
  let failing = next_list t next_z in
  (tk, env_of_tables (if topics_ok then Good topics else Fail) tb failing)

let status_name (s : status) : string =
  match s with
  | StNotFound -> "NOTFOUND" | StOK -> "OK" | StWarn -> "WARN" | StErr -> "ERR"
  | StStop -> "STOP" | StStall -> "STALL" | StRewind -> "REWIND"

let fmt_coff (o : coff option) : string =
  match o with
  | None -> "n"
  | Some c -> String.concat "." [sz c.co_offset; sz c.co_order; sz c.co_ts; (match c.co_lag with None -> "n" | Some l -> sz l)]

let fmt_part (p : pstatus) : string =
  String.concat ":" [ hex_of_name p.ps_topic; sz p.ps_partition; status_name p.ps_status; sz p.ps_lag;
                      sz (f32_bits p.ps_complete); hex_of_name p.ps_owner; hex_of_name p.ps_client;
                      fmt_coff p.ps_start; fmt_coff p.ps_end ]

let zcmp a b = ZA.compare (zt_of_coqz a) (zt_of_coqz b)

(* M: the partition carrying the largest lag, or T:<lag> when more than one topic has such a partition *)
let fmt_max (full : gstatus) (g : gstatus) : string =
  match g.gs_maxlag with
  | None -> "-"
  | Some m ->
    let topics = List.sort_uniq compare
        (List.filter_map (fun p -> if zcmp p.ps_lag m.ps_lag = 0 then Some (unname p.ps_topic) else None) full.gs_partitions) in
    if List.length topics > 1 then "T:" ^ sz m.ps_lag
    else String.concat ":" [hex_of_name m.ps_topic; sz m.ps_partition; sz m.ps_lag]

let fmt_status (tag : string) (full : gstatus option) (r : gstatus option) : string =
  match r with
  | None -> tag ^ " NF"
  | Some g ->
    let parts = List.sort (fun a b ->
        let c = compare (unname a.ps_topic) (unname b.ps_topic) in
        if c <> 0 then c else zcmp a.ps_partition b.ps_partition) g.gs_partitions in
    let full = match full with Some f -> f | None -> g in
    cat ([ tag; status_name g.gs_status; sz (f32_bits g.gs_complete); sz g.gs_total_partitions; sz g.gs_totallag;
           "M"; fmt_max full g; "P"; string_of_int (List.length parts) ] @ List.map fmt_part parts)

exception Died

let run (line : string) : string =
  let t = toks_of_line line in
  (match next t with "pipe" -> () | k -> failwith ("drv_pipeline: unknown case kind " ^ k));
  Hashtbl.reset tbl; Hashtbl.reset rev; fresh := 1000000;
  let intervals = next_int t in
  let expire = next_z t in
  let mindist = next_z t in
  let minimum = f32_of_bits (next_z t) in
  let allowed = next_z t in
  let now0 = next_z t in
  let sallow = next_int t in
  let sdeny = next_int t in
  let cls = next_list t (fun t -> let c = next_z t in let a = next_int t in let d = next_int t in (c, (a, d))) in
  let saccept (g : z) : bool = accept sallow sdeny (ints_of_string (unname g)) in
  let raccept (c : z) (g : z list) : bool =
    match List.find_opt (fun (c', _) -> zcmp c c' = 0) cls with
    | Some (_, (a, d)) -> accept a d (List.map iz g)
    | None -> true in
  let cf = { cf_intervals = nat_of_int intervals; cf_expire = expire; cf_min_distance = mindist; cf_accept = saccept } in
  let pc = { pc_storage = cf; pc_clusters = List.map fst cls; pc_reader_accept = raccept;
             pc_minimum = minimum; pc_allowed = allowed } in
  let ps = ref (pinit pc now0) in
  let out = ref [] in
  let step ev : pout list =
    match pipe_step name pc !ps ev with
    | None -> raise Died
    | Some (ps', outs) -> ps := ps'; outs in
  let status_of (outs : pout list) : gstatus option =
    match outs with
    | [OStatus (_, _, _, r)] -> r
    | _ -> failwith "drv_pipeline: a status request has exactly one answer" in
  let nev = next_int t in
  (try
    for _ = 1 to nev do
      match next t with
      | "T" -> ignore (step (Tick (next_z t)))
      | "K" ->
        let c = next_z t in let order = next_z t in
        let key = bytes_of_hex (next t) in let value = bytes_of_hex (next t) in
        ignore (step (KafkaMessage (c, key, value, order)))
      | "Y" ->
        let c = next_z t in
        let (tk, e) = read_cycle t in
        (match next t with "@" -> () | s -> failwith ("drv_pipeline: expected @, got " ^ s));
        let _ = next_list t next_z in
        let _ = next_list t (fun t -> let a = next_z t in let b = next_z t in let c = next_z t in let d = next_z t in (a, b, c, d)) in
        ignore (step (ClusterCycle (c, tk, e)))
      | "S" ->
        let c = next_z t in let g = bytes_of_hex (next t) in let order = next_int t in
        if order = 0 then begin
          let f = status_of (step (StatusRequest (c, g, true))) in
          out := fmt_status "F" f f :: !out;
          let p = status_of (step (StatusRequest (c, g, false))) in
          out := fmt_status "P" f p :: !out
        end else begin
          let p = status_of (step (StatusRequest (c, g, false))) in
          let f = status_of (step (StatusRequest (c, g, true))) in
          out := fmt_status "P" f p :: !out;
          out := fmt_status "F" f f :: !out
        end
      | "P" ->
        let c = next_z t in
        let lists = next_list t (fun t -> next_list t (fun t ->
          let order = next_z t in let key = bytes_of_hex (next t) in let value = bytes_of_hex (next t) in (order, key, value))) in
        List.iter (List.iter (fun (order, key, value) -> ignore (step (KafkaMessage (c, key, value, order))))) lists
      | "L" ->
        let c = next_z t in
        (match Model.step cf (!ps).p_now (!ps).p_storage (FetchConsumers c) with
         | Crashed -> raise Died
         | Done (st', rep) ->
           ps := { !ps with p_storage = st' };
           (match rep with
            | RStrings l ->
              let names = List.sort compare (List.map unname l) in
              out := cat (["L"; string_of_int (List.length names)] @ List.map (fun s -> hex_of_bytes (bytes_of_string s)) names) :: !out
            | _ -> out := "L NIL" :: !out))
      | k -> failwith ("drv_pipeline: unknown event " ^ k)
    done
  with Died -> out := "DIED" :: !out);
  String.concat " | " (List.rev !out)
