(* Model side of the configuration probe (C19): same case lines, same output lines.
   Trusted glue: tokenising, hex decoding, interning of strings to atoms, viper lookup semantics (a key is set iff it
   occurs on the line; module names are the second path component; typed getters with the code's SetDefault values),
   turning the F: facts into the oracle function fields, and the X: token (state of the caller's ApplicationContext:
   fresh | preset | reuse, the latter with the P-prefixed tokens of the configuration of the earlier Start) into the
   model's app_state. *)
open Model
open Vutil

let unhex (h : string) : string =
  let n = String.length h / 2 in
  String.init n (fun i -> Char.chr (int_of_string ("0x" ^ String.sub h (2 * i) 2)))

type value = S of string | L of string list | I of int | B of bool | T   (* strings stay hex encoded *)

let split_on c s = String.split_on_char c s

let site_name (s : site) : string = match s with
  | ZkNoServers -> "ZkNoServers" | ZkBadServers -> "ZkBadServers" | ZkBadRoot -> "ZkBadRoot"
  | StorageCount -> "StorageCount" | StorageClass -> "StorageClass" | StorageWorkers -> "StorageWorkers" | StorageIntervals -> "StorageIntervals" | StorageQueueDepth -> "StorageQueueDepth"
  | StorageLegacy -> "StorageLegacy" | StorageAllow -> "StorageAllow" | StorageDeny -> "StorageDeny"
  | EvaluatorCount -> "EvaluatorCount" | EvaluatorClass -> "EvaluatorClass" | EvaluatorCache -> "EvaluatorCache"
  | HttpAddress -> "HttpAddress" | HttpCaFile -> "HttpCaFile" | HttpNoCert -> "HttpNoCert" | HttpKeyPair -> "HttpKeyPair"
  | NotifierInterval -> "NotifierInterval" | NotifierLegacy -> "NotifierLegacy" | NotifierAllow -> "NotifierAllow" | NotifierDeny -> "NotifierDeny"
  | NotifierTemplateOpen -> "NotifierTemplateOpen" | NotifierTemplateClose -> "NotifierTemplateClose"
  | NotifierClass -> "NotifierClass" | NotifierUrlOpen -> "NotifierUrlOpen" | NotifierUrlClose -> "NotifierUrlClose"
  | NotifierExtraCa -> "NotifierExtraCa" | EmailServer -> "EmailServer" | EmailFrom -> "EmailFrom" | EmailTo -> "EmailTo"
  | EmailAuth -> "EmailAuth" | ProfileUnknown -> "ProfileUnknown" | ProfileVersion -> "ProfileVersion"
  | ProfileCaFile -> "ProfileCaFile" | ProfileKeyPair -> "ProfileKeyPair" | ClusterClass -> "ClusterClass"
  | ClusterNoServers -> "ClusterNoServers" | ClusterBadServers -> "ClusterBadServers" | ClusterRefresh -> "ClusterRefresh" | ClusterReaperRefresh -> "ClusterReaperRefresh" | ConsumerCluster -> "ConsumerCluster"
  | ConsumerClass -> "ConsumerClass" | ConsumerNoServers -> "ConsumerNoServers" | ConsumerBadServers -> "ConsumerBadServers"
  | ConsumerZkPath -> "ConsumerZkPath" | ConsumerLegacy -> "ConsumerLegacy" | ConsumerAllow -> "ConsumerAllow"
  | ConsumerDeny -> "ConsumerDeny" | HandlerAssertion -> "HandlerAssertion"

let coord_name (k : coord) : string = match k with
  | CZookeeper -> "zookeeper" | CStorage -> "storage" | CEvaluator -> "evaluator" | CHttpserver -> "httpserver"
  | CNotifier -> "notifier" | CCluster -> "cluster" | CConsumer -> "consumer"

let coords (l : coord list) : string = String.concat "," (List.sort compare (List.map coord_name l))

(* interning: hex string -> atom; the empty string is 0 (one table per case line, shared by prelude and main config) *)
let atoms : (string, int) Hashtbl.t = Hashtbl.create 64
let names : (int, string) Hashtbl.t = Hashtbl.create 64
let atom (h : string) : z =
  if h = "" then Z0 else
  match Hashtbl.find_opt atoms h with
  | Some i -> zi i
  | None -> let i = Hashtbl.length atoms + 1 in Hashtbl.add atoms h i; Hashtbl.add names i (unhex h); zi i
let name_of (a : z) : string = if a = Z0 then "" else try Hashtbl.find names (iz a) with Not_found -> "?"
let hex_of (a : z) : string = if a = Z0 then "" else
  let n = iz a in Hashtbl.fold (fun h i acc -> if i = n then h else acc) atoms ""

(* one configuration from its tokens *)
let build (toks : string list) : config =
  let kv : (string * value) list ref = ref [] in
  let facts : (string, bool) Hashtbl.t = Hashtbl.create 64 in
  let files = ref [] in
  List.iter (fun tk ->
    match split_on ':' tk with
    | "s" :: k :: [h] -> kv := (k, S h) :: !kv
    | "l" :: k :: [h] -> kv := (k, L (if h = "" then [] else split_on ',' h)) :: !kv
    | "i" :: k :: [n] -> kv := (k, I (int_of_string n)) :: !kv
    | "b" :: k :: [b] -> kv := (k, B (b = "1")) :: !kv
    | "t" :: [k] -> kv := (k, T) :: !kv
    | "F" :: kind :: rest ->
        let rec split_last = function [x] -> ([], x) | x :: r -> let (a, l) = split_last r in (x :: a, l) | [] -> failwith "fact" in
        let (args, b) = split_last rest in
        Hashtbl.replace facts (String.concat ":" (kind :: args)) (b = "1");
        if kind = "file" && b = "1" then files := atom (List.hd args) :: !files
    | _ -> failwith ("drv_config: bad token " ^ tk)) toks;
  let kv = List.rev !kv in
  let is_set k = List.mem_assoc k kv in
  let get_s k = match List.assoc_opt k kv with Some (S h) -> h | Some (I n) -> "" | _ -> "" in
  let get_l k = match List.assoc_opt k kv with Some (L l) -> l | Some (S h) when h <> "" -> [h] | _ -> [] in
  let get_i k d = match List.assoc_opt k kv with Some (I n) -> n | _ -> d in
  let get_b k = match List.assoc_opt k kv with Some (B b) -> b | _ -> false in
  let modules sect =
    List.fold_left (fun acc (k, _) ->
      match split_on '.' k with
      | s :: n :: _ :: _ when s = sect && not (List.mem n acc) -> acc @ [n]
      | _ -> acc) [] kv in
  let fact key = match Hashtbl.find_opt facts key with Some b -> b | None -> false in
  let oracle kind = fun (a : z) -> fact (kind ^ ":" ^ hex_of a) in
  let cls_of h = match unhex h with
    | "inmemory" -> ClsInmemory | "caching" -> ClsCaching | "http" -> ClsHttp | "email" -> ClsEmail | "null" -> ClsNull
    | "kafka" -> ClsKafka | "kafka_zk" -> ClsKafkaZk | _ -> ClsOther in
  let auth_of h = match String.lowercase_ascii (unhex h) with
    | "" -> AuthNone | "plain" -> AuthPlain | "crammd5" -> AuthCramMD5 | _ -> AuthOther in
  let nm s = atom (String.concat "" (List.map (fun c -> Printf.sprintf "%02x" (Char.code c)) (List.of_seq (String.to_seq s)))) in
  let opt k = if is_set k then Some (atom (get_s k)) else None in
  let legacy root = is_set (root ^ ".group-whitelist") || is_set (root ^ ".group-blacklist") in
  {
    cfg_notifier_table = is_set "notifier";
    cfg_zk_servers = List.map atom (get_l "zookeeper.servers");
    cfg_zk_root = opt "zookeeper.root-path";
    cfg_zk_tls = opt "zookeeper.tls";
    cfg_storage = List.map (fun n -> let r = "storage." ^ n in
      { st_name = nm n; st_class = cls_of (get_s (r ^ ".class-name")); st_workers = zi (get_i (r ^ ".workers") 20); st_intervals = zi (get_i (r ^ ".intervals") 10);
        st_queue_depth = zi (get_i (r ^ ".queue-depth") 1);
        st_legacy = legacy r; st_allow = atom (get_s (r ^ ".group-allowlist")); st_deny = atom (get_s (r ^ ".group-denylist")) })
      (modules "storage");
    cfg_evaluator = List.map (fun n -> let r = "evaluator." ^ n in
      { ev_name = nm n; ev_class = cls_of (get_s (r ^ ".class-name")); ev_expire = zi (get_i (r ^ ".expire-cache") 10) })
      (modules "evaluator");
    cfg_http = List.map (fun n -> let r = "httpserver." ^ n in
      { hs_name = nm n; hs_addr = atom (get_s (r ^ ".address")); hs_tls = opt (r ^ ".tls") }) (modules "httpserver");
    cfg_notifier = List.map (fun n -> let r = "notifier." ^ n in
      { nt_name = nm n; nt_class = cls_of (get_s (r ^ ".class-name")); nt_interval = zi (get_i (r ^ ".interval") 60); nt_legacy = legacy r;
        nt_allow = atom (get_s (r ^ ".group-allowlist")); nt_deny = atom (get_s (r ^ ".group-denylist"));
        nt_template_open = atom (get_s (r ^ ".template-open")); nt_send_close = get_b (r ^ ".send-close");
        nt_template_close = atom (get_s (r ^ ".template-close"));
        nt_url_open = atom (get_s (r ^ ".url-open")); nt_url_close = atom (get_s (r ^ ".url-close"));
        nt_extra_ca = atom (get_s (r ^ ".extra-ca")); nt_noverify = get_b (r ^ ".noverify");
        nt_server = atom (get_s (r ^ ".server")); nt_port = zi (get_i (r ^ ".port") 0);
        nt_from = atom (get_s (r ^ ".from")); nt_to = atom (get_s (r ^ ".to")); nt_auth = auth_of (get_s (r ^ ".auth-type")) })
      (modules "notifier");
    cfg_cluster = List.map (fun n -> let r = "cluster." ^ n in
      { cl_name = nm n; cl_class = cls_of (get_s (r ^ ".class-name")); cl_profile = atom (get_s (r ^ ".client-profile"));
        cl_servers = List.map atom (get_l (r ^ ".servers"));
        cl_offset_refresh = zi (get_i (r ^ ".offset-refresh") 10); cl_topic_refresh = zi (get_i (r ^ ".topic-refresh") 60);
        cl_reaper_refresh = zi (get_i (r ^ ".groups-reaper-refresh") 0) }) (modules "cluster");
    cfg_consumer = List.map (fun n -> let r = "consumer." ^ n in
      { cn_name = nm n; cn_class = cls_of (get_s (r ^ ".class-name")); cn_cluster = atom (get_s (r ^ ".cluster"));
        cn_profile = atom (get_s (r ^ ".client-profile")); cn_servers = List.map atom (get_l (r ^ ".servers"));
        cn_zkpath = atom (get_s (r ^ ".zookeeper-path")); cn_legacy = legacy r;
        cn_allow = atom (get_s (r ^ ".group-allowlist")); cn_deny = atom (get_s (r ^ ".group-denylist")) })
      (modules "consumer");
    cfg_profiles = List.map (fun n -> let r = "client-profile." ^ n in
      { cp_name = nm n; cp_version = opt (r ^ ".kafka-version"); cp_tls = opt (r ^ ".tls"); cp_sasl = opt (r ^ ".sasl") })
      (modules "client-profile");
    cfg_sasl = List.map (fun n -> { sp_name = nm n; sp_mechanism = atom (get_s ("sasl." ^ n ^ ".mechanism")) }) (modules "sasl");
    cfg_tls = List.map (fun n -> let r = "tls." ^ n in
      { tp_name = nm n; tp_cert = atom (get_s (r ^ ".certfile")); tp_key = atom (get_s (r ^ ".keyfile"));
        tp_ca = atom (get_s (r ^ ".cafile")) }) (modules "tls");
    cfg_files = !files;
    regex_ok = oracle "re"; template_ok = oracle "tmpl"; hostport_ok = oracle "host"; listen_ok = oracle "listen";
    zkpath_ok = oracle "zkpath"; zkroot_trivial = (fun a -> name_of a = "/"); zkcons_ok = oracle "zkcons"; kversion_ok = oracle "kver";
    mail_ok = (fun h p -> fact ("mail:" ^ hex_of h ^ ":" ^ sz p));
    keypair_ok = (fun c k -> fact ("pair:" ^ hex_of c ^ ":" ^ hex_of k));
    ca_pem_ok = oracle "capem";
    reachable = (fun _ -> false);    (* nothing listens on the addresses the catalogue uses *)
  }

let run (line : string) : string =
  let toks = (toks_of_line line).rest in
  (match toks with "cfg" :: _ :: _ :: _ -> () | _ -> failwith "drv_config: not a cfg case");
  let toks = List.tl (List.tl (List.tl toks)) in
  Hashtbl.reset atoms; Hashtbl.reset names;
  let is_pre tk = String.length tk > 2 && tk.[0] = 'P' in
  let is_ctx tk = String.length tk > 2 && tk.[0] = 'X' && tk.[1] = ':' in
  let ctx = match List.filter is_ctx toks with
    | [] -> "fresh" | [tk] -> String.sub tk 2 (String.length tk - 2) | _ -> failwith "drv_config: more than one X: token" in
  let pre_toks = List.map (fun tk -> String.sub tk 1 (String.length tk - 1)) (List.filter is_pre toks) in
  let main_toks = List.filter (fun tk -> not (is_pre tk) && not (is_ctx tk)) toks in
  (* the state of the ApplicationContext when Start is entered, and what the probe prints about how it came about *)
  let (a0, pre) = match ctx with
    | "fresh" -> (fresh_app, "")
    | "preset" -> (used_app, "")
    | "reuse" ->
        let pc = build pre_toks in
        let po = canonical_order pc in
        let prc = match start po pc fresh_app with Panicked _ -> "PANIC" | Returned (rc, _, _) -> sz rc in
        (app_after_history [(po, pc)] fresh_app, Printf.sprintf " pre=%s/%b" prc (config_valid po pc fresh_app))
    | _ -> failwith ("drv_config: unknown context " ^ ctx) in
  let cfg = build main_toks in
  let show o =
    match start o cfg a0 with
    | Panicked _ -> "PANIC model"
    | Returned (rc, st, ls) ->
        Printf.sprintf "RET %s valid=%b configured=%s started=%s listening=%d%s" (sz rc) (config_valid o cfg a0)
          (coords (configured o cfg)) (coords st) (List.length ls) pre in
  let a = show (canonical_order cfg) and b = show (reverse_order cfg) in
  let reqs = requirements cfg in
  let old = match start_old (canonical_order cfg) cfg a0 with
    | Panicked (PanicZap (_, _)) -> "PANIC zap" | Panicked (PanicError (_, _)) -> "PANIC error"
    | Panicked (PanicString (_, _)) -> "PANIC string" | Returned (rc, _, _) -> "RET " ^ sz rc in
  let first = match configure_all (canonical_order cfg) cfg with
    | None -> "-" | Some p -> let (s, m) = panic_violation p in site_name s ^ "@" ^ name_of m in
  (if a = b then a else "ORDER-DEPENDENT [" ^ a ^ "] [" ^ b ^ "]")
  ^ " # reqs=" ^ string_of_int (List.length reqs) ^ " "
  ^ String.concat "," (List.map (fun (s, m) -> site_name s ^ "@" ^ name_of m) reqs)
  ^ " first=" ^ first ^ " old=" ^ old ^ " ctx=" ^ ctx ^ "/" ^ string_of_bool (app_valid a0)
