(* driver <layer> <cases-file> : one output line per case line *)
let layers : (string * (string -> string)) list = [
  ("eval", Drv_eval.run);
]

let () =
  let layer = Sys.argv.(1) and path = Sys.argv.(2) in
  let f = try List.assoc layer layers with Not_found -> failwith ("unknown layer " ^ layer) in
  List.iter (fun l -> if String.trim l <> "" then print_endline (f l)) (Vutil.read_lines path)
