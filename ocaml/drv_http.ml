(* Model side of the HTTP probe (C16, C18): same case lines, same output lines.
   Trusted glue: parsing of the line into Coq values (hex <-> byte lists, configuration tree, world),
   printing of the model's result in the probe's format. *)
open Model
open Vutil

let bytes_of_hex (h : string) : z list =
  if h = "-" then [] else begin
    let n = String.length h / 2 in
    List.init n (fun i -> zi (int_of_string ("0x" ^ String.sub h (2 * i) 2)))
  end

let hex_of_bytes (b : z list) : string =
  if b = [] then "-" else String.concat "" (List.map (fun x -> Printf.sprintf "%02x" (iz x)) b)

let bytes_of_ocaml (s : string) : z list = List.init (String.length s) (fun i -> zi (Char.code s.[i]))

let rec read_tree t : tree =
  match next t with
  | "L" ->
    (match next t with
     | "s" -> Leaf (VStr (bytes_of_hex (next t)))
     | "n" -> Leaf (VNum (next_z t))
     | "b" -> Leaf (VBool (next_int t = 1))
     | "l" -> Leaf (VList (next_list t (fun t -> bytes_of_hex (next t))))
     | "p" -> let i = next t in Leaf (VStr (bytes_of_ocaml ("PWTOKEN" ^ i)))
     | k -> failwith ("drv_http: leaf kind " ^ k))
  | "N" ->
    let n = next_int t in
    let rec go i = if i = 0 then KNil else
        let k = bytes_of_hex (next t) in
        let c = read_tree t in
        let r = go (i - 1) in KCons (k, c, r) in
    Node (go n)
  | k -> failwith ("drv_http: tree token " ^ k)

let read_world t : wcluster list =
  next_list t (fun t ->
    let name = bytes_of_hex (next t) in
    let topics = next_list t (fun t ->
      let tn = bytes_of_hex (next t) in
      let offs = next_list t next_z in (tn, offs)) in
    let groups = next_list t (fun t ->
      let gn = bytes_of_hex (next t) in
      let st = next_z t in
      let fin = next_int t = 1 in (gn, (st, fin))) in
    { wc_name = name; wc_topics = topics; wc_groups = groups })

let status_name (s : z) : string =
  match iz s with
  | 0 -> "NOTFOUND" | 1 -> "OK" | 2 -> "WARN" | 3 -> "ERR" | 4 -> "STOP" | 5 -> "STALL" | 6 -> "REWIND"
  | _ -> "UNKNOWN"

let fmt_issued (l : issued list) : string =
  cat ("R" :: string_of_int (List.length l) ::
       List.map (function
         | IStorage q -> Printf.sprintf "S:%s:%s:%s:%s" (sz q.sq_type) (hex_of_bytes q.sq_cluster)
                           (hex_of_bytes q.sq_group) (hex_of_bytes q.sq_topic)
         | IEval (c, g, a) -> Printf.sprintf "E:%s:%s:%d" (hex_of_bytes c) (hex_of_bytes g) (if a then 1 else 0)) l)

let fmt_params (ps : (z list * z list) list) : string =
  cat ("P" :: string_of_int (List.length ps) ::
       List.map (fun (n, v) -> hex_of_bytes n ^ "=" ^ hex_of_bytes v) ps)

let tf b = if b then "t" else "f"
let b01 b = if b then "1" else "0"

let fmt_outcome (o : outcome) : string =
  match o with
  | Crash -> "CRASH"
  | Resp (code, ctj, body) ->
    let ct = if ctj then "json" else "none" in
    (match body with
     | BJson (e, m, r, st) ->
       cat [ "H"; sz code; ct; "json"; tf e; b01 m; b01 r; (match st with None -> "-" | Some s -> status_name s) ]
     | BPlain -> cat [ "H"; sz code; ct; "plain"; "-"; "0"; "0"; "-" ]
     | BEmpty -> cat [ "H"; sz code; ct; "empty"; "-"; "0"; "0"; "-" ]
     | BOpaque -> cat [ "H"; sz code; ct; "opaque"; "-"; "0"; "0"; "-" ])

let req (v0 : bool) t : string =
  let meth = bytes_of_ocaml (next t) in
  let _raw = next t in
  let path = bytes_of_hex (next t) in
  let body = (match next t with "-" -> zi 2 | s -> zs s) in
  let ready = next_int t = 1 in
  let override = next_z t in
  (match next t with "C" -> () | k -> failwith ("drv_http: expected C, got " ^ k));
  let cfg = read_tree t in
  (match next t with "W" -> () | k -> failwith ("drv_http: expected W, got " ^ k));
  let w = read_world t in
  let b = world_backend w override ready in
  match dispatch compiled_table meth path with
  | None -> if router_level_possible compiled_table path then "U ?" else "U 404"
  | Some (row, ps) ->
    (match row.br_route with
     | None -> "NOMODEL " ^ fmt_params ps
     | Some r ->
       let (iss, o) = (if v0 then handle_v0 else handle) r ps body b cfg in
       cat [ fmt_outcome o; fmt_issued iss; fmt_params ps ])

let leak t : string =
  let _ = next t in let _ = next t in
  (match next t with "C" -> () | k -> failwith ("drv_http: expected C, got " ^ k));
  let _ = read_tree t in
  (match next t with "Q" -> () | k -> failwith ("drv_http: expected Q, got " ^ k));
  let n = next_int t in
  (* non-interference (ConfigReadProofs.noninterference): the model predicts identical, token-free bodies *)
  "LEAK ok " ^ string_of_int n

(* file-configuration case: the same requests on the model, over the configuration tree of the document *)
let filecfg t : string =
  let _doc = next t in
  (match next t with "C" -> () | k -> failwith ("drv_http: expected C, got " ^ k));
  let cfg = read_tree t in
  (match next t with "Q" -> () | k -> failwith ("drv_http: expected Q, got " ^ k));
  let n = next_int t in
  let b = world_backend [] (zi 0) true in
  let one () =
    let meth = bytes_of_ocaml (next t) in
    let _raw = next t in
    let path = bytes_of_hex (next t) in
    match dispatch compiled_table meth path with
    | None -> "U"
    | Some (row, ps) ->
      (match row.br_route with
       | None -> "NOMODEL"
       | Some r ->
         (match snd (handle r ps (zi 2) b cfg) with
          | Crash -> "CRASH"
          | Resp (code, ctj, BJson (e, _, _, _)) when ctj -> sz code ^ ":" ^ tf e
          | Resp (code, _, _) -> sz code ^ ":-")) in
  let rec go i acc = if i = 0 then List.rev acc else let x = one () in go (i - 1) (x :: acc) in
  cat ("FILE" :: "ok" :: "K" :: go n [])

let run (line : string) : string =
  let t = toks_of_line line in
  match next t with
  | "req" -> req false t
  | "req0" -> req true t
  | "leak" -> leak t
  | "filecfg" -> filecfg t
  | "e2e" -> "E2E same"     (* HttpProofs.get_is_readonly + fetch_step_readonly: GETs leave no trace beyond what expiry removes *)
  | k -> failwith ("drv_http: unknown case kind " ^ k)
