(* Model side of the wire probe (C06, C07, C10 reader half): same case lines, same output lines.

   case lines
     msg <name> <cluster> <mode> <allow> <deny> <order> <keyhex> <valuehex>
     vo  <name> <cluster> <mode> <allow> <deny> <order> <keyver> <group> <topic> <partition> <valver|T> <offset> <epoch> <metadata> <ts> <expire>
     vm  <name> <cluster> <mode> <allow> <deny> <order> <group> <valver|T> <ptype> <generation> <protocol> <leader> <statets> <nmembers> {member}
         member := <id> <instance> <clientid> <host> <rebalance> <session> <subscription> <assignment>
         assignment := N | E | A <ver> <ntopics> {<topic> <nparts> {<part>}} <userdata>
     re  <allow> <deny> <grouphex>
     c10m <name> <cluster> <mode> <a_set> <a_m> <d_set> <d_m> <order> <keyhex> <valuehex>     (second phase of the C10 reader cases: the four
          booleans are what the probe's real regexps answered for the message's group; see checks/c10_wire.py)
   <name> / <cluster>: the consumer module's own name and the cluster it is configured for (hex).
   <mode>: S = the probe configures the module with viper.Set, T = from a TOML document; a Z
           appended = real zap core instead of the nop logger (no difference for the model).
   <allow> / <deny>: 0 = key absent, 1..6 = a pattern of the pool, 7 = key present with the empty string (= no list).
   strings: N = null, - = empty, else hex.  <allow>/<deny> index the pattern pool below (0 = not set).

   output lines
     msg : OK <n> <req> ; <req> ... | A <sum of model allocs>      or   CRASH | <why>
     vo/vm : K <keyhex> V <valuehex> => <as msg>
     re : ACC 0|1
     c10m : <as msg, without the | part, lists as given> || <the same with no lists>
   req := <kind> <clusterhex> <group> <topic> <partition> <offset> <timestamp> <order> <owner> <clientid>, sorted *)
open Model
open Vutil

let hex_of_bytes (b : z list) : string =
  if b = [] then "-" else String.concat "" (List.map (fun x -> Printf.sprintf "%02x" (iz x)) b)

let bytes_of_hex (s : string) : z list =
  if s = "-" then [] else begin
    let n = String.length s / 2 in
    let rec go i acc = if i < 0 then acc else go (i - 1) (zi (int_of_string ("0x" ^ String.sub s (2 * i) 2)) :: acc) in
    go (n - 1) []
  end

let opt_of_tok (s : string) : z list option = if s = "N" then None else Some (bytes_of_hex s)

(* The pattern pool of the probe, as plain predicates over the group bytes (the probe evaluates the real regexp
   of a module configured with the pattern; the `re` cases compare the two directly). *)
let pat_match (idx : int) (g : z list) : bool =
  let b = List.map iz g in
  let first = match b with x :: _ -> Some x | [] -> None in
  let last = match List.rev b with x :: _ -> Some x | [] -> None in
  match idx with
  | 1 -> first = Some 97                       (* ^a *)
  | 2 -> last = Some 98                        (* b$ *)
  | 3 -> true                                  (* .* *)
  | 4 -> b = []                                (* ^$ *)
  | 5 -> first = Some 97 || first = Some 98    (* ^(a|b) *)
  | 6 -> List.mem 120 b                        (* x *)
  | _ -> failwith "drv_wire: pattern index"

let is_set (idx : int) : bool = idx <> 0 && idx <> 7

let accept (allow : int) (deny : int) (g : z list) : bool =
  reader_accept (is_set allow) (is_set allow && pat_match allow g) (is_set deny) (is_set deny && pat_match deny g)

let variant () : bool * bool =
  match Sys.getenv_opt "VERIF_WIRE_MODEL" with
  | Some "unrepaired" -> (false, false)
  | Some "bounds-only" -> (true, false)
  | _ -> (true, true)

let fmt_req ((c, r) : z list * request) : string =
  let h = hex_of_bytes in
  match r with
  | SetConsumerOffset (g, t, p, off, ts, order) -> cat [ "offset"; h c; h g; h t; sz p; sz off; sz ts; sz order; "-"; "-" ]
  | SetConsumerOwner (g, t, p, owner, cid) -> cat [ "owner"; h c; h g; h t; sz p; "0"; "0"; "0"; h owner; h cid ]
  | ClearConsumerOwners g -> cat [ "clear"; h c; h g; "-"; "0"; "0"; "0"; "0"; "-"; "-" ]
  | DeleteGroup g -> cat [ "delete"; h c; h g; "-"; "0"; "0"; "0"; "0"; "-"; "-" ]

let fmt_outcome (o : outcome_for) : string =
  match o with
  | CrashFor MakeSliceLen -> "CRASH | makeslice"
  | CrashFor FuelExhausted -> "CRASH | model-fuel-exhausted"
  | DoneFor (rs, al) ->
      let l = List.sort compare (List.map fmt_req rs) in
      "OK " ^ string_of_int (List.length l) ^ (if l = [] then "" else " " ^ String.concat " ; " l)
      ^ " | A " ^ sz (sumz al)

let next_cfg t : reader_cfg =
  let name = bytes_of_hex (next t) in let cluster = bytes_of_hex (next t) in
  let _mode = next t in
  { rc_name = name; rc_cluster = cluster }

let process cfg allow deny key value order : string =
  let (bounds, macc) = variant () in
  fmt_outcome (address cfg (process_message_gen bounds macc (accept allow deny) key value order))

let msg t : string =
  let cfg = next_cfg t in
  let allow = next_int t in let deny = next_int t in
  let order = next_z t in
  let key = bytes_of_hex (next t) in let value = bytes_of_hex (next t) in
  process cfg allow deny key value order

let next_str t = opt_of_tok (next t)

let vo t : string =
  let cfg = next_cfg t in
  let allow = next_int t in let deny = next_int t in
  let order = next_z t in
  let kv = next_z t in let g = next_str t in let tp = next_str t in let p = next_z t in
  let vv = next t in
  let off = next_z t in let epoch = next_z t in let md = next_str t in let ts = next_z t in let expire = next_z t in
  let key = enc_offset_key kv g tp p in
  let value =
    if vv = "T" then []
    else enc_offset_value (zs vv) { ov_offset = off; ov_leader_epoch = epoch; ov_metadata = md;
                                    ov_commit_ts = ts; ov_expire_ts = expire } in
  "K " ^ hex_of_bytes key ^ " V " ^ hex_of_bytes value ^ " => " ^ process cfg allow deny key value order

let read_assignment t : asg_field =
  match next t with
  | "N" -> AsgNull
  | "E" -> AsgEmpty
  | "A" ->
      let ver = next_z t in
      let topics = next_list t (fun t ->
        let name = next_str t in
        let parts = next_list t next_z in
        (name, parts)) in
      let ud = next_str t in
      Asg { a_version = ver; a_topics = topics; a_userdata = ud }
  | s -> failwith ("drv_wire: assignment tag " ^ s)

let vm t : string =
  let cfg = next_cfg t in
  let allow = next_int t in let deny = next_int t in
  let order = next_z t in
  let g = next_str t in
  let vv = next t in
  let ptype = next_str t in let gen = next_z t in let protocol = next_str t in let leader = next_str t in
  let statets = next_z t in
  let members = next_list t (fun t ->
    let id = next_str t in let inst = next_str t in let cid = next_str t in let host = next_str t in
    let reb = next_z t in let sess = next_z t in let sub = next_str t in
    let asg = read_assignment t in
    { wm_id = id; wm_instance = inst; wm_client_id = cid; wm_host = host; wm_rebalance = reb;
      wm_session = sess; wm_subscription = sub; wm_assignment = asg }) in
  let key = enc_meta_key g in
  let value =
    if vv = "T" then []
    else enc_meta_value (zs vv) { mv_ptype = ptype; mv_generation = gen; mv_protocol = protocol;
                                  mv_leader = leader; mv_state_ts = statets; mv_members = members } in
  "K " ^ hex_of_bytes key ^ " V " ^ hex_of_bytes value ^ " => " ^ process cfg allow deny key value order

let re t : string =
  let allow = next_int t in let deny = next_int t in
  let g = bytes_of_hex (next t) in
  if accept allow deny g then "ACC 1" else "ACC 0"

let strip_info (s : string) : string =
  match String.index_opt s '|' with
  | Some i when i > 0 -> String.sub s 0 (i - 1)
  | _ -> s

let c10m t : string =
  let cfg = next_cfg t in
  let b () = next_int t <> 0 in
  let a_set = b () in let a_m = b () in let d_set = b () in let d_m = b () in
  let order = next_z t in
  let key = bytes_of_hex (next t) in let value = bytes_of_hex (next t) in
  let acc = reader_accept a_set a_m d_set d_m in
  strip_info (fmt_outcome (process_message_for cfg (fun _ -> acc) key value order)) ^ " || "
  ^ strip_info (fmt_outcome (process_message_for cfg (fun _ -> true) key value order))

let run (line : string) : string =
  let t = toks_of_line line in
  match next t with
  | "msg" -> msg t
  | "vo" -> vo t
  | "vm" -> vm t
  | "re" -> re t
  | "c10m" -> c10m t
  | k -> failwith ("drv_wire: unknown case kind " ^ k)
